"""C19 — I/O failures are reported as failures, never as success."""
import os, re, resource, shutil, signal, subprocess, tempfile
from .. import core, progdiff
from ..gen import Lib, ProgGen

PROOF_MODULES = ['Resynth.Props.C19', 'Resynth.Props.C08Batch']

RULE = ("for each program the real binary runs under RLIMIT_FSIZE = k (SIGXFSZ ignored, so write(2) returns a short count and "
        "then EFBIG) for EVERY k from 0 to the full output length on small programs and for strided k plus every BufWriter "
        "boundary (multiples of 8192) +-1 on programs larger than several buffers; each run must exit non-zero with a "
        "diagnostic, never print ok, never panic, and agree with the model's outcome for budget k; at k >= length the run "
        "succeeds with the complete file. Plus: /dev/full as output, missing/ENOTDIR output directory, missing input, input "
        "that is a directory, missing data file for io::file. Non-trivial = a fault strictly inside the output; distinct = (program, k)")


def limited(k):
    def f():
        signal.signal(signal.SIGXFSZ, signal.SIG_IGN)
        resource.setrlimit(resource.RLIMIT_FSIZE, (k, k))
    return f


def fault_run(c, src, k, full_len, tag, flags=()):
    res = core.run_cli(src, preexec=limited(k), extra_args=['-k'] + list(flags))
    o = core.classify_cli(res)
    m = core.parse_model_prog(c.model.ask(core.model_prog_req(src, k)))
    rep = dict(src=src.decode()[:2000], k=k, full=full_len, flags=list(flags))
    if o[0] == 'panic':
        c.violation('io:panic', 'write failure at byte %d of %d panics: %s' % (k, full_len, o[1]), rep)
    elif k < full_len:
        if o[0] == 'success' or ' ok' in re.sub(r'\x1b\[[0-9;]*m', '', res['stdout']).split('->')[-1]:
            c.violation('io:claimed-success', 'write failure at byte %d of %d reported as success' % (k, full_len), rep)
        elif res['rc'] == 0:
            c.violation('io:exit-status', 'exit status 0 after a write failure', rep)
    else:
        if o[0] != 'success':
            c.violation('io:spurious-failure', 'run fails although the limit %d >= output length %d' % (k, full_len), rep)
    if not progdiff.same_outcome(o, m['outcome']):
        c.disagree('fault', rep, str(o), str(m['outcome']))
    if res['pcap'] is not None and o[0] == 'failure' and not m['file'].startswith(res['pcap'][:len(m['file'])]):
        pass
    c.count('fault:' + o[0])
    c.case((hash(src), k) if k < full_len else None, dict(kind=tag, k=k, full=full_len, outcome=str(o)) if c.evaluations % 40 == 0 else None)


def big_program(nrec, size):
    lines = ['import eth;', 'import text;', 'let a = "|%s|";' % ('ab' * 64), 'let b = text::concat(%s);' % ', '.join(['a'] * max(1, size // 64))]
    lines += ['eth::frame("|000000000001|", "|000000000002|", b);'] * nrec
    return ('\n'.join(lines) + '\n').encode()


def stored_program(nrec, size):
    """the same amount of output from packet SEQUENCES that are bound by let and emitted through their names (also twice, and through
    a second name), and from single stored packets"""
    lines = ['import ipv4;', 'import eth;', 'import text;', 'let a = "|%s|";' % ('ab' * 64), 'let b = text::concat(%s);' % ', '.join(['a'] * max(1, size // 64)),
             'let f = ipv4::tcp::flow(1.2.3.4:5, 6.7.8.9:80);', 'let hs = f.open();', 'hs;']
    for k in range(nrec):
        lines.append('let m%d = f.%s_message(b);' % (k, 'client' if k % 2 else 'server')); lines.append('m%d;' % k)
        if k % 3 == 0: lines.append('let n%d = m%d;' % (k, k)); lines.append('n%d;' % k)
        if k % 4 == 1: lines.append('let p%d = eth::frame("|000000000001|", "|000000000002|", b);' % k); lines.append('p%d;' % k)
    return ('\n'.join(lines) + '\n').encode()


def campaign(c):
    c.rule = RULE
    lib = Lib()
    progs = []
    # small programs: every offset
    i = 0
    while len(progs) < (4 if c.quick else 25):
        r = c.rng.fork('c19-%d' % i); i += 1
        src = ProgGen(lib, r, max_stmts=6, payload_max=30).program()
        res = core.run_cli(src)
        if core.classify_cli(res)[0] == 'success' and res['pcap'] and 24 < len(res['pcap']) < (500 if c.quick else 1500):
            progs.append((src, len(res['pcap'])))
    for src, n in progs:
        for k in range(0, n + 2):
            fault_run(c, src, k, n, 'every-offset')
    # programs that emit no packet at all: the output is the 24-byte file header, and failing to write IT is a failure too
    for src in (b'', b'# nothing\n', b'import eth;\n', b'import ipv4;\nlet f = ipv4::tcp::flow(1.2.3.4:5, 6.7.8.9:80);\nlet s = f.open();\n',
                b'import time;\ntime::jump_seconds(3);\n', b'import text;\ntext::concat("discarded");\n'):
        for flags in ((), ('-v',)):
            for k in range(0, 26):
                fault_run(c, src, k, 24, 'header-only' + (':' + ' '.join(flags) if flags else ''), flags)
        c.count('header-only-programs')
    # the same enumeration under the other output-related command line options (-v prints every packet and goes through a
    # differently configured writer; --color only touches the diagnostics)
    for src, n in progs[:2 if c.quick else 12]:
        for flags in (['-v'], ['--color', 'always'], ['-v', '--color', 'never']):
            for k in range(0, n + 2):
                fault_run(c, src, k, n, 'every-offset:' + ' '.join(flags), flags)
    # several buffers: boundaries +-1 and a stride
    for nrec, size in ([(6, 4000), (1, 9000), (2, 8192)] if c.quick else [(6, 4000), (1, 9000), (2, 8192), (40, 1400), (3, 30000), (200, 100), (1, 65000)]):
        src = big_program(nrec, size)
        n = len(core.run_cli(src)['pcap'])
        ks = set([0, 1, 23, 24, 25, n - 1, n, n + 1])
        for b in range(8192, n + 8192, 8192): ks.update([b - 1, b, b + 1])
        ks.update(range(0, n, max(1, n // (25 if c.quick else 200))))
        rec = 16 + 14 + (size // 64) * 64
        for j in range(nrec): ks.update([24 + j * rec - 1, 24 + j * rec, 24 + j * rec + 1, 24 + j * rec + 16, 24 + j * rec + rec // 2, 24 + (j + 1) * rec - 1])
        for k in sorted(x for x in ks if 0 <= x <= n + 1):
            fault_run(c, src, k, n, 'buffers')
    for nrec, size in ([(5, 3000)] if c.quick else [(5, 3000), (12, 1400), (3, 20000)]):
        src = stored_program(nrec, size)
        n = len(core.run_cli(src)['pcap'])
        ks = set([0, 23, 24, 25, n - 1, n])
        for b in range(8192, n + 8192, 8192): ks.update([b - 1, b, b + 1])
        ks.update(range(0, n, max(1, n // (30 if c.quick else 250))))
        for k in sorted(x for x in ks if 0 <= x <= n + 1):
            fault_run(c, src, k, n, 'buffers-stored')
    # other faults
    src = b'import eth;\neth::frame("|000000000001|", "|000000000002|", "payload");\n'
    d = tempfile.mkdtemp(prefix='rsio')
    try:
        inp = os.path.join(d, 'a.rsyn'); open(inp, 'wb').write(src)
        def run(args):
            p = subprocess.run([core.CLI] + args, capture_output=True, cwd=d, timeout=60)
            return p.returncode, p.stdout.decode('utf-8', 'replace'), p.stderr.decode('utf-8', 'replace')
        cases = {
            'devfull': ['-k', '-o', '/dev/full', inp],
            'missing-outdir': ['--out-dir', os.path.join(d, 'nope', 'deeper'), inp],
            'outdir-is-file': ['--out-dir', inp, inp],
            'missing-input': ['--out-dir', d, os.path.join(d, 'missing.rsyn')],
            'input-is-dir': ['--out-dir', d, d + '/sub.rsyn'],
        }
        os.mkdir(os.path.join(d, 'sub.rsyn'))
        for name, args in cases.items():
            rc, out, err = run(args)
            if 'panicked' in err or rc not in (0, 1):
                c.violation('io:panic:' + name, '%s: panic / abnormal exit %d: %s' % (name, rc, err[-200:]), dict(args=args))
            elif rc == 0 or ' ok' in out:
                c.violation('io:claimed-success:' + name, '%s: reported as success' % name, dict(args=args, out=out))
            elif 'error' not in out:
                c.violation('io:no-diagnostic:' + name, '%s: no diagnostic printed' % name, dict(args=args, out=out))
            c.case(('other', name), dict(kind=name, rc=rc, out=out[-160:]))
        # missing inputs whose names hold characters that mean something to a shell or a path library: reported like any other
        good_in = os.path.join(d, 'goodin.rsyn'); open(good_in, 'wb').write(src)
        for odd in ('abs*nt', 'wh?t', '[x]', '{a,b}', '~x', '$HOME', 'a b', 'x;y', 'dot.', 'sub/dir*/f'):
            for argv in ([os.path.join(d, odd + '.rsyn')], [good_in, os.path.join(d, odd + '.rsyn')], [os.path.join(d, odd + '.rsyn'), good_in]):
                for how in (['--out-dir', d],) + ((['-o', os.path.join(d, 'only.pcap')],) if len(argv) == 1 else ()):
                    pr = subprocess.run([core.CLI] + how + argv, capture_output=True, cwd=d, timeout=60)
                    name = 'missing-input-odd-name:%s:%d' % (odd, len(argv))
                    out_ = pr.stdout.decode('utf-8', 'replace')
                    if b'panicked' in pr.stderr or pr.returncode not in (0, 1):
                        c.violation('io:panic:' + name, '%s: panic / abnormal exit %d' % (name, pr.returncode), dict(args=[a.replace(d, '<T>') for a in argv]))
                    elif pr.returncode == 0:
                        c.violation('io:claimed-success:' + name, '%s: an input that does not exist, the exit status is 0' % name, dict(args=[a.replace(d, '<T>') for a in argv], out=out_.replace(d, '<T>')[-200:]))
                    elif (odd + '.rsyn') not in out_ or 'error' not in out_:
                        c.violation('io:no-diagnostic:' + name, '%s: no diagnostic names the missing input' % name, dict(args=[a.replace(d, '<T>') for a in argv], out=out_.replace(d, '<T>')[-200:]))
            c.case(('other', 'missing-odd:' + odd), dict(kind='missing-input-odd-name', name=odd))
        # output into a named pipe whose reader has gone away before anything is written (EPIPE at whatever write comes first - for a
        # small program the final flush): a failure like any other
        for prog_src, tagp in ((src, 'small'), (big_program(3, 4000), 'several-buffers'), (b'', 'empty')):
            fifo = os.path.join(d, 'out-%s.fifo' % tagp); os.mkfifo(fifo)
            pr = subprocess.Popen([core.CLI, '--color', 'never', '-k', '-o', fifo, '/dev/stdin'], stdin=subprocess.PIPE, stdout=subprocess.PIPE, stderr=subprocess.PIPE, cwd=d)
            import threading
            th = threading.Thread(target=lambda: os.close(os.open(fifo, os.O_RDONLY)), daemon=True)     # the writer's open() returns once a reader is there; the reader leaves at once
            th.start(); th.join(30)
            if th.is_alive():
                pr.kill(); os.close(os.open(fifo, os.O_WRONLY | os.O_NONBLOCK)) if False else None
                c.count('closed-pipe-not-reached'); continue
            out_, err_ = pr.communicate(prog_src, timeout=60)
            name = 'closed-pipe:' + tagp
            if b'panicked' in err_ or pr.returncode not in (0, 1):
                c.violation('io:panic:' + name, '%s: panic / abnormal exit %d: %s' % (name, pr.returncode, err_[-160:].decode('utf-8', 'replace')), dict(kind=name))
            elif pr.returncode == 0 or b' ok' in out_:
                c.violation('io:claimed-success:' + name, '%s: nothing could be written, the run claims success' % name, dict(kind=name, out=out_.decode('utf-8', 'replace')[-200:]))
            elif b'error' not in out_:
                c.violation('io:no-diagnostic:' + name, '%s: no diagnostic printed' % name, dict(kind=name))
            c.case(('other', name), dict(kind=name, rc=pr.returncode))
        # the same faults with paths that are not valid UTF-8 / contain spaces, newlines, non-ASCII characters: a path is bytes
        db = os.fsencode(d)
        for tagp, odd in (('latin1', b'caf\xe9'), ('space', b'with space'), ('newline', b'new\nline'), ('utf8', 'dätei'.encode()), ('invalid', b'\xff\xfe')):
            cli = os.fsencode(core.CLI)
            okdir = os.path.join(db, odd + b'-ok'); os.mkdir(okdir)
            # input paths are taken as text by the argument parser (invalid UTF-8 there is a usage error, exit status 2, before any
            # I/O): odd bytes go into the input name only when they are valid UTF-8; output paths are paths and may hold any bytes
            valid = tagp in ('space', 'newline', 'utf8')
            oddin = os.path.join(okdir, odd + b'.rsyn') if valid else os.path.join(db, b'plain-' + tagp.encode() + b'.rsyn')
            open(oddin, 'wb').write(src)
            cases2 = {
                'ok-odd-paths': ([cli, b'--out-dir', okdir, oddin], True),
                'missing-outdir': ([cli, b'--out-dir', os.path.join(db, odd + b'-missing', b'deeper'), os.fsencode(inp)], False),
                'missing-outdir-odd-input': ([cli, b'--out-dir', os.path.join(db, odd + b'-missing'), oddin], False),
                'parent-is-file': ([cli, b'-o', os.path.join(os.fsencode(inp), odd + b'.pcap'), os.fsencode(inp)], False),
                'missing-input': ([cli, b'--out-dir', okdir, os.path.join(db, (odd if valid else b'plain') + b'-nope.rsyn')], False),
            }
            for name, (argv, want_ok) in cases2.items():
                p = subprocess.run(argv, capture_output=True, cwd=d, timeout=60)
                name = '%s:%s' % (name, tagp)
                if b'panicked' in p.stderr or p.returncode not in (0, 1):
                    c.violation('io:panic:' + name, '%s: panic / abnormal exit %d: %s' % (name, p.returncode, p.stderr[-160:].decode('utf-8', 'replace')), dict(args=[a.decode('utf-8', 'replace') for a in argv[1:]]))
                elif (p.returncode == 0) != want_ok:
                    c.violation(('io:claimed-success:' if not want_ok else 'io:spurious-failure:') + name, '%s: exit status %d' % (name, p.returncode), dict(args=[a.decode('utf-8', 'replace') for a in argv[1:]], out=p.stdout.decode('utf-8', 'replace')[-200:]))
                elif not want_ok and b'error' not in p.stdout:
                    c.violation('io:no-diagnostic:' + name, '%s: no diagnostic printed' % name, dict(args=[a.decode('utf-8', 'replace') for a in argv[1:]]))
                c.case(('oddpath', name), dict(kind=name, rc=p.returncode))
        # the same faults inside a batch (src/cli.rs `resynth()`, Model/Batch.lean): the failing input first, in the middle and
        # last among inputs that succeed - the run as a whole has to report the failure (exit status) whatever follows it,
        # the failing input gets a diagnostic and leaves no output, and the good inputs are still compiled
        from .. import batch
        good = dict(stem='good', src=src); good2 = dict(stem='good2', src=src)
        nodata = dict(stem='nodata', src=b'import io;\nimport eth;\neth::frame("|000000000001|", "|000000000002|", io::file("absent.bin"));\n')
        bigi = dict(stem='big', src=big_program(3, 4000))
        faults = [('missing-input', dict(stem='missing', src=None), None), ('input-is-dir', dict(stem='sub', src=None, isdir=True), None),
                  ('missing-datafile', nodata, None), ('write-fault', bigi, 5000), ('not-a-file-name', dict(stem=None, src=None), None)]
        for fname, bad_in, budget in faults:
            for pos, order in (('first', [bad_in, good, good2]), ('middle', [good, bad_in, good2]), ('last', [good, good2, bad_in]), ('alone', [bad_in]),
                               ('twice', [bad_in, good, dict(bad_in), good2])):
                for keep in (False, True):
                    impl, model = batch.compare(c, order, keep=keep, budget=budget, what='batch-fault')
                    name = 'batch:%s:%s%s' % (fname, pos, ':keep' if keep else '')
                    rep = dict(kind=name, out=impl['stdout'][-600:])
                    bi = [k for k, x in enumerate(order) if x is bad_in or (x.get('stem') == bad_in.get('stem') and x.get('src') == bad_in.get('src') and x is not good and x is not good2)]
                    if 'panic' in impl['reports']:
                        c.violation('io:panic:' + name, '%s: panic / abnormal exit %s' % (name, impl['exit']), rep)
                    elif impl['exit'] == 0:
                        c.violation('io:claimed-success:' + name, '%s: an input of the batch failed but the exit status is 0' % name, rep)
                    elif len(impl['reports']) != len(order) or any(impl['reports'][k] == 'ok' for k in bi):
                        c.violation('io:no-diagnostic:' + name, '%s: the failing input was not reported as failed: %s' % (name, impl['reports']), rep)
                    elif any(impl['reports'][k] != 'ok' for k in range(len(order)) if k not in bi) or not all(g in impl['dir'] for g in ('good', 'good2') if any(x is good or x is good2 for x in order) and (g == 'good' or good2 in order)):
                        c.violation('io:batch:' + name, '%s: a good input of the batch was not compiled: %s %s' % (name, impl['reports'], sorted(impl['dir'])), rep)
                    elif not keep and bad_in.get('stem') in impl['dir']:
                        c.violation('io:batch-output-kept:' + name, '%s: the incomplete output of the failing input was left behind' % name, rep)
                    c.case(('batch', fname, pos, keep), dict(kind=name, exit=impl['exit'], reports=impl['reports']))
        # the output directory itself is missing: every input fails, none is claimed
        impl, model = batch.compare(c, [good, good2], outdir_missing=True, what='batch-fault')
        if impl['exit'] == 0 or 'ok' in impl['reports']:
            c.violation('io:claimed-success:batch:missing-outdir', 'outputs cannot be created but the run claims success', dict(out=impl['stdout'][-400:]))
        c.case(('batch', 'missing-outdir'), dict(kind='batch:missing-outdir', reports=impl['reports']))
        # data file for io::file missing / present
        s2 = b'import io;\nimport eth;\neth::frame("|000000000001|", "|000000000002|", io::file("data.bin"));\n'
        for present in (False, True):
            files = {'data.bin': b'\x00\x01\xfe\xff' * 5} if present else {}
            impl, model = progdiff.run_both(c, s2, files)
            progdiff.compare(c, s2, impl, model, 'datafile')
            if not present and impl['outcome'][0] != 'failure':
                c.violation('io:datafile', 'missing data file not reported as a failure: %s' % (impl['outcome'],), dict(src=s2.decode()))
            c.case(('datafile', present), dict(kind='datafile', present=present, outcome=str(impl['outcome'])))
    finally:
        shutil.rmtree(d, ignore_errors=True)
    c.assumptions += ['write(2) under RLIMIT_FSIZE: short write up to the limit, then EFBIG (observed); std::io::BufWriter semantics as modelled in Model/Io.lean with capacity 8192',
                      'the model reports the file content of a failed run as of the last completed source line (see DESIGN, modelled-not-verified)']


def replay(c, data):
    d = data.get('replay') or data['disagreements'][0]['request']
    fault_run(c, d['src'].encode(), d['k'], d['full'], 'replay', d.get('flags', ()))
