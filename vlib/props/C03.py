"""C03 — transport headers verify: TCP/UDP/ICMP checksums, UDP length, ICMP echo fields."""
from .. import netscen, core, progdiff

RULE = ("builder scenarios (TCP flow ops incl. RST and fragment offsets, UDP flow/unicast/broadcast/DNS helper/VXLAN outer, "
        "ICMP echo histories) with payload lengths 0/odd/even, all-ones and 0xfffe patterns (sums that carry twice) and "
        "crafted datagrams whose UDP sum folds to zero; raw/framed; inside and outside tunnels. Every transport header of "
        "every real record is judged by Spec.l4Ok / udpLenOk / icmpEchoOk. Non-trivial = >= 1 record; distinct = (kind, raw, count, source)")


def project(raw):
    # transport segment: everything after the outer IP header
    return (lambda f: f[20:]) if raw else (lambda f: f[34:])


def zero_fold_payload(src, dst, sport, dport, prefix):
    """two trailing bytes such that the UDP checksum computes to 0 (so 0xffff must be transmitted)"""
    n = 8 + len(prefix) + 2
    ws = [src >> 16, src & 0xffff, dst >> 16, dst & 0xffff, 17, n, sport, dport, n, 0]
    p = prefix + b'\0\0'
    ws += [int.from_bytes(p[i:i + 2].ljust(2, b'\0'), 'big') for i in range(0, len(p), 2)]
    s = sum(ws)
    while s >> 16: s = (s & 0xffff) + (s >> 16)
    x = (0xffff - s) & 0xffff            # adding x makes the folded sum 0xffff => complemented checksum 0
    if len(prefix) % 2: return None
    return prefix + x.to_bytes(2, 'big')


def campaign(c):
    c.rule = RULE
    kinds = ['tcp', 'udp', 'unicast', 'broadcast', 'dnshost', 'icmp', 'tunnel', 'sized']
    n = 200 if c.quick else 4000
    for i in range(n):
        r = c.rng.fork('c03-%d' % i)
        netscen.run_scenario(c, r, 'l4', [kinds[i % len(kinds)]] if i < 5 * len(kinds) else kinds, project)
    # crafted: UDP sums folding to zero
    for i in range(12 if c.quick else 200):
        r = c.rng.fork('zf%d' % i)
        pre = r.bytes(2 * r.below(20))
        b = zero_fold_payload(0x01020304, 0x05060708, 1000, 53, pre)
        for raw in (False, True):
            s = netscen.Scen(r, raw); s.udp_special(b)
            src = s.program()
            impl, model = progdiff.run_both(c, src)
            progdiff.compare(c, src, impl, model, 'udp-zero-fold', project=project(raw), times=False)
            if impl['outcome'][0] == 'success':
                for fr, e in zip([x[1] for x in progdiff.pcap_records(impl['file'])], s.exp):
                    netscen.judge(c, fr, raw, e, 'l4', dict(src=src.decode()))
                    c.count('zero-fold-case')
            c.case(('zf', i, raw), dict(kind='udp-zero-fold', payload=b.hex()))
    c.assumptions += ['expected ports/ids/sequence numbers come from the scenario generator']


def replay(c, data):
    d = data.get('replay') or data['disagreements'][0]['request']
    impl, model = progdiff.run_both(c, d['src'].encode())
    progdiff.compare(c, d['src'].encode(), impl, model, 'replay')
