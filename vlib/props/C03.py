"""C03 — transport headers verify: TCP/UDP/ICMP checksums, UDP length, ICMP echo fields."""
from .. import netscen, core, progdiff

RULE = ("builder scenarios (TCP flow ops incl. RST and fragment offsets, UDP flow/unicast/broadcast/DNS helper/VXLAN outer, "
        "ICMP echo histories) with payload lengths 0/odd/even, all-ones and 0xfffe patterns (sums that carry twice) and "
        "crafted datagrams whose UDP sum folds to zero; raw/framed; inside and outside tunnels. Every transport header of "
        "every real record is judged by Spec.l4Ok / udpLenOk / icmpEchoOk. Non-trivial = >= 1 record; distinct = (kind, raw, count, source)")


def project(raw):
    # transport segment: everything after the outer IP header
    return (lambda f: f[20:]) if raw else (lambda f: f[34:])


def zero_fold_payload(src, dst, sport, dport, prefix):
    """two trailing bytes such that the UDP checksum computes to 0 (so 0xffff must be transmitted)"""
    n = 8 + len(prefix) + 2
    ws = [src >> 16, src & 0xffff, dst >> 16, dst & 0xffff, 17, n, sport, dport, n, 0]
    p = prefix + b'\0\0'
    ws += [int.from_bytes(p[i:i + 2].ljust(2, b'\0'), 'big') for i in range(0, len(p), 2)]
    s = sum(ws)
    while s >> 16: s = (s & 0xffff) + (s >> 16)
    x = (0xffff - s) & 0xffff            # adding x makes the folded sum 0xffff => complemented checksum 0
    if len(prefix) % 2: return None
    return prefix + x.to_bytes(2, 'big')


def campaign(c):
    c.rule = RULE
    kinds = ['tcp', 'udp', 'unicast', 'broadcast', 'dnshost', 'icmp', 'tunnel', 'sized']
    n = 200 if c.quick else 4000
    for i in range(n):
        r = c.rng.fork('c03-%d' % i)
        netscen.run_scenario(c, r, 'l4', [kinds[i % len(kinds)]] if i < 5 * len(kinds) else kinds, project)
    # long histories on one flow: checksum defects that depend on the VALUE of the sum (a lost carry in an incremental update, a
    # special case for one residue) show up in a fraction of the segments only
    for i in range(6 if c.quick else 120):
        r = c.rng.fork('long%d' % i)
        netscen.run_scenario(c, r, 'l4', [['icmp-long', 'udp-long', 'tcp-long'][i % 3]], project)
    for i in range(6 if c.quick else 30):
        netscen.run_scenario(c, c.rng.fork('sweep%d' % i), 'l4', [['icmp-sweep', 'udp-sweep', 'tcp-sweep'][i % 3]], project)
    for i in range(2 if c.quick else 12):
        netscen.run_scenario(c, c.rng.fork('optgrid%d' % i), 'l4', ['opt-grid'], project)
    netscen.run_scenario(c, c.rng.fork('nonemit'), 'l4', ['non-emitting'], project)
    netscen.run_scenario(c, c.rng.fork('ports'), 'l4', ['port-classes'], project)
    for i in range(2 if c.quick else 10):
        netscen.run_scenario(c, c.rng.fork('pieces%d' % i), 'l4', ['pieces'], project)
    for i in range(3 if c.quick else 30):
        netscen.run_scenario(c, c.rng.fork('fanout%d' % i), 'l4', ['fan-out'], project)
    for i in range(2 if c.quick else 20):
        netscen.run_scenario(c, c.rng.fork('addrsum%d' % i), 'l4', [['addr-sum-tcp', 'addr-sum-udp'][i % 2]], project)
    # crafted: UDP sums folding to zero
    for i in range(12 if c.quick else 200):
        r = c.rng.fork('zf%d' % i)
        pre = r.bytes(2 * r.below(20))
        b = zero_fold_payload(0x01020304, 0x05060708, 1000, 53, pre)
        for raw in (False, True):
            s = netscen.Scen(r, raw); s.udp_special(b)
            src = s.program()
            impl, model = progdiff.run_both(c, src)
            progdiff.compare(c, src, impl, model, 'udp-zero-fold', project=project(raw), times=False)
            if impl['outcome'][0] == 'success':
                for fr, e in zip([x[1] for x in progdiff.pcap_records(impl['file'])], s.exp):
                    netscen.judge(c, fr, raw, e, 'l4', dict(src=src.decode()))
                    c.count('zero-fold-case')
            c.case(('zf', i, raw), dict(kind='udp-zero-fold', payload=b.hex()))
    # crafted: sums whose FIRST fold overflows 16 bits (the end-around carry must be applied twice)
    def raw_sum(frame, raw):
        ip = frame if raw else frame[14:]
        proto, seg = ip[9], bytearray(ip[20:])
        off = {6: 16, 17: 6, 1: 2}[proto]
        seg[off:off + 2] = b'\0\0'
        data = bytes(seg) if proto == 1 else ip[12:20] + bytes([0, proto]) + len(seg).to_bytes(2, 'big') + bytes(seg)
        if len(data) % 2: data += b'\0'
        return sum(int.from_bytes(data[i:i + 2], 'big') for i in range(0, len(data), 2))
    kinds = [('tcp-c', 'let f = ipv4::tcp::flow(10.1.2.3:4000, 10.9.8.7:80%s);', 'f.client_message(send_ack: false, %s);', 'tcp'),
             ('tcp-s', 'let f = ipv4::tcp::flow(10.1.2.3:4000, 10.9.8.7:80%s);', 'f.server_segment(%s);', 'tcp'),
             ('udp', 'let f = ipv4::udp::flow(10.1.2.3:4000, 10.9.8.7:53%s);', 'f.client_dgram(%s);', ('udp', True)),
             ('icmp-q', 'let f = ipv4::icmp::flow(10.1.2.3, 10.9.8.7%s);', 'f.echo(%s);', ('icmp', 8, 0x1234, 0)),
             ('icmp-r', 'let f = ipv4::icmp::flow(10.1.2.3, 10.9.8.7%s);', 'f.echo_reply(%s);', ('icmp', 0, 0x1234, 0))]
    for i in range(10 if c.quick else 200):
        r = c.rng.fork('dc%d' % i)
        name, decl, stmt, l4 = kinds[i % len(kinds)]
        raw = r.chance(1, 3)
        pre = b'\xff\xff' * (2 + r.below(40)) + r.bytes(2 * r.below(8))
        tail = r.bytes(1) if r.chance(1, 2) else b''
        def prog(w):
            return ('import ipv4;\n' + decl % (', raw: true' if raw else '') + '\n' + stmt % ('"|%s|"' % (pre + w + tail).hex()) + '\n').encode()
        f0 = progdiff.pcap_records(core.run_cli(prog(b'\0\0'))['pcap'] or b'')
        if not f0: continue
        s0 = raw_sum(f0[0][1], raw)
        w = ((0xffff - s0) & 0xffff).to_bytes(2, 'big')
        src = prog(w)
        impl, model = progdiff.run_both(c, src)
        progdiff.compare(c, src, impl, model, 'double-carry', project=project(raw), times=False)
        if impl['outcome'][0] == 'success':
            fr = progdiff.pcap_records(impl['file'])[0][1]
            s1 = raw_sum(fr, raw)
            if (s1 & 0xffff) + (s1 >> 16) >= 0x10000: c.count('double-carry-case')
            e = dict(src=0x0a010203, dst=0x0a090807, sport=4000, dport=53, proto=0, id=0, ttl=64, off=0, evil=False, df=False, mf=False, l4=l4, eth='ip')
            if name in ('tcp-s', 'icmp-r'): e.update(src=0x0a090807, dst=0x0a010203)
            netscen.judge(c, fr, raw, e, 'l4', dict(src=src.decode()))
        c.case(('dc', i), dict(kind='double-carry', builder=name, payload_len=len(pre) + 2 + len(tail)))
    # crafted: sums that overflow a WIDE accumulator's own fold. An implementation that adds 32 or 64 bits at a time and folds the
    # accumulator down loses a carry only when a partial sum sits on the word boundary: (a) runs of ff words followed by a small
    # word (payload summed on its own), (b) one word tuned so that the low half of the word sum of the whole segment is all-ones
    def word_sum(frame, raw, W):
        ip = frame if raw else frame[14:]
        proto, seg = ip[9], bytearray(ip[20:])
        off = {6: 16, 17: 6, 1: 2}[proto]
        seg[off:off + 2] = b'\0\0'
        seg += b'\0' * (-len(seg) % W)
        return sum(int.from_bytes(seg[i:i + W], 'big') for i in range(0, len(seg), W))
    def one(tag, i, name, decl, stmt, l4, raw, payload):
        src = ('import ipv4;\n' + decl % (', raw: true' if raw else '') + '\n' + stmt % ('"|%s|"' % payload.hex()) + '\n').encode()
        impl, model = progdiff.run_both(c, src)
        progdiff.compare(c, src, impl, model, tag, project=project(raw), times=False)
        if impl['outcome'][0] == 'success':
            fr = progdiff.pcap_records(impl['file'])[0][1]
            e = dict(src=0x0a010203, dst=0x0a090807, sport=4000, dport=53, proto=0, id=0, ttl=64, off=0, evil=False, df=False, mf=False, l4=l4, eth='ip')
            if name in ('tcp-s', 'icmp-r'): e.update(src=0x0a090807, dst=0x0a010203)
            netscen.judge(c, fr, raw, e, 'l4', dict(src=src.decode()))
            c.count(tag + '-case')
        c.case((tag, i), dict(kind=tag, builder=name, payload_len=len(payload)))
    i = 0
    for W in (4, 8):
        for (k, j) in ((2, 1), (3, 1), (8, 1), (8, 7), (8, 8), (40, 1)) if c.quick else [(k, j) for k in (1, 2, 3, 8, 40, 300) for j in (0, 1, 2, k - 1, k, k + 1) if j >= 0]:
            for name, decl, stmt, l4 in (kinds if not c.quick else kinds[i % 2::2]):
                r = c.rng.fork('wc%d' % i); i += 1
                raw = r.chance(1, 3)
                one('wide-carry', i, name, decl, stmt, l4, raw, b'\xff' * (W * k) + j.to_bytes(W, 'big') + (r.bytes(r.below(W)) if r.chance(1, 3) else b''))
    for i in range(10 if c.quick else 200):
        r = c.rng.fork('wt%d' % i)
        name, decl, stmt, l4 = kinds[i % len(kinds)]
        W = (4, 8)[(i // len(kinds)) % 2]
        raw = r.chance(1, 3)
        pre = b'\xff' * (W * (2 + r.below(12))) + r.bytes(W * r.below(4))
        tail = r.bytes(r.below(W)) if r.chance(1, 2) else b''
        def prog(w):
            return ('import ipv4;\n' + decl % (', raw: true' if raw else '') + '\n' + stmt % ('"|%s|"' % (pre + w + tail).hex()) + '\n').encode()
        f0 = progdiff.pcap_records(core.run_cli(prog(b'\0' * W))['pcap'] or b'')
        if not f0: continue
        a0 = word_sum(f0[0][1], raw, W)
        w = ((-1 - a0) % (1 << (8 * W))).to_bytes(W, 'big')
        one('wide-tuned', i, name, decl, stmt, l4, raw, pre + w + tail)
    c.assumptions += ['expected ports/ids/sequence numbers come from the scenario generator']


def replay(c, data):
    d = data.get('replay') or data['disagreements'][0]['request']
    impl, model = progdiff.run_both(c, d['src'].encode())
    progdiff.compare(c, d['src'].encode(), impl, model, 'replay')
