"""C11 — calls bind arguments to parameters exactly as the calling convention says."""
import itertools
from .. import core
from ..gen import Lib, compatible

PROOF_MODULES = ['Resynth.Props.C11', 'Resynth.Props.C11Gen', 'Resynth.Props.C11Exec']

RULE = ("every signature of the real library (functions and methods: every mix of mandatory, optional, nullable and variable-"
        "tail parameters) x all call shapes up to length 2 (quick) / 3 (thorough): each argument unnamed or named with the "
        "first/second/last declared name or an undeclared name, in any order with repeats, x a compatible, an incompatible and "
        "a nil value; random longer calls over all 15 value types. The real FuncDef::argvec, the model and the declarative "
        "Spec.bind must agree on accept/reject and on the bound vector and tail. Non-trivial = call with >= 1 argument; "
        "distinct = (function, call shape)")

REPS = {'Void': 'nil', 'Bool': 'bool:true', 'U8': 'u8:7', 'U16': 'u16:300', 'U32': 'u32:70000', 'U64': 'u64:5000000000', 'Ip4': 'ip4:16909060',
        'Sock4': 'sock4:16909060:80', 'Str': 'str:6162', 'Obj': 'mk:tcp', 'Func': 'func:std::be16', 'Method': 'mkm:tcp.open',
        'Pkt': 'pkt:000102030405060708090a0b0c0d', 'PktGen': 'pktgen:[0001,0203]', 'TimeJump': 'timejump:5'}
ALLT = list(REPS)


def decl_type(a):
    if a['kind'] == 'pos': return a['type'], False
    t = a['default']['type']
    if t == 'Type': return a['default']['value'], True
    return t, False


def values_for(f, argname):
    """a compatible, an incompatible and a nil value for the parameter (or the collect type)"""
    t, nullable = None, False
    for a in f['args']:
        if a['name'] == argname: t, nullable = decl_type(a)
    if t is None: t = f['collect_type'] if f['collect_type'] != 'Void' else 'U64'
    good = [u for u in ALLT if compatible(t, u)]
    bad = [u for u in ALLT if not compatible(t, u) and u != 'Void']
    out = [REPS[good[-1]] if good else 'nil', REPS[bad[0]] if bad else 'nil', 'nil']
    if len(good) > 1: out.append(REPS[good[0]])
    return out


def check(c, f, call, tag):
    req = '%s %s' % (f['path'], ' '.join('%s=%s' % (n or '-', v) for n, v in call))
    hi = c.harness.ask('bind ' + req)
    mo = c.model.ask('bind ' + req)
    if hi != mo:
        c.disagree('bind', dict(func=f['path'], call=call), hi[:300], mo[:300])
    sp = c.model.ask('oracle bind ' + req)
    if hi != sp:
        kind = 'panic' if hi.startswith('panic') else ('accepts' if hi.startswith('ok') and not sp.startswith('ok') else 'rejects' if sp.startswith('ok') and not hi.startswith('ok') else 'rebinds')
        c.violation('bind:%s' % kind, 'argvec and the calling convention disagree on %s: impl=%s spec=%s' % (req[:200], hi[:200], sp[:200]), dict(func=f['path'], call=call))
    c.traces_validated += 1
    c.count('impl:' + hi.split(' ')[0] + (':' + hi.split(' ')[1] if hi.startswith('err') else ''))
    key = (f['path'], tuple(call)) if call else None
    c.case(key, dict(kind=tag, req=req[:200], impl=hi[:160]) if key and c.evaluations % 400 == 0 else None)


# ---- the same call shapes through the LANGUAGE (lexer, parser, Program::eval_args / eval_callable, then the binder): one-call programs
SRC_OF = {'bool:true': 'true', 'u8:7': 'ipv4::proto::UDP', 'u16:300': 'dns::rtype::NS', 'u32:70000': '70000', 'u64:5000000000': '5000000000', 'ip4:16909060': '1.2.3.4',
          'sock4:16909060:80': '1.2.3.4:80', 'str:6162': '"ab"', 'mk:tcp': 'ob', 'func:std::be16': 'std::be16', 'mkm:tcp.open': 'ob.open',
          'pkt:000102030405060708090a0b0c0d': 'pk', 'pktgen:[0001,0203]': 'pg', 'timejump:5': 'tj'}
SPEC_OF = {'u8:7': 'u8:17', 'u16:300': 'u16:2', 'u32:70000': 'u64:70000'}      # the type the source expression really has
CTOR_SRC = {'ipv4::tcp::TcpFlow': 'ipv4::tcp::flow(1.2.3.4:1000, 5.6.7.8:80)', 'ipv4::udp::UdpFlow': 'ipv4::udp::flow(1.2.3.4:1000, 5.6.7.8:53)',
            'ipv4::icmp::Icmp': 'ipv4::icmp::flow(1.2.3.4, 5.6.7.8)', 'ipv4::IpFrag': 'ipv4::frag(1.2.3.4, 5.6.7.8, "|%s|")' % bytes(range(40)).hex(),
            'vxlan::Vxlan': 'vxlan::session(1.2.3.4:1000, 5.6.7.8:4789)', 'gre::Gre': 'gre::session(1.2.3.4, 5.6.7.8, 25944)',
            'erspan1::Erspan1': 'erspan1::session(1.2.3.4, 5.6.7.8)', 'erspan2::Erspan2': 'erspan2::session(1.2.3.4, 5.6.7.8)', 'io::BufIO': 'io::bufio("|00010203040506070809|")'}
E2E_HEAD = ''.join('import %s;\n' % m for m in ['dhcp', 'dns', 'erspan1', 'erspan2', 'eth', 'gre', 'io', 'ipv4', 'netbios', 'std', 'text', 'time', 'tls', 'vxlan']) + \
    'let ob = ipv4::tcp::flow(9.9.9.9:9, 8.8.8.8:8);\nlet pk = ob.client_ack();\nlet pg = ob.open();\nlet tj = time::jump_nanos(5);\n'


def e2e(c, f, call, tag):
    """accept / reject of a one-call program on the real binary against the calling convention (Spec.bind) and the model"""
    from .. import progdiff
    if any(v == 'nil' for _, v in call): return
    args = ', '.join(('%s: %s' % (n, SRC_OF[v])) if n else SRC_OF[v] for n, v in call)
    if '.' in f['path']:
        cls, m = f['path'].split('.')
        body = 'let o2 = %s;\nlet r = o2.%s(%s);\n' % (CTOR_SRC[cls], m, args)
    else:
        body = 'let r = %s(%s);\n' % (f['path'], args)
    src = (E2E_HEAD + body).encode()
    impl, model = progdiff.run_both(c, src)
    progdiff.compare(c, src, impl, model, 'bind-e2e')
    sp = c.model.ask('oracle bind %s %s' % (f['path'], ' '.join('%s=%s' % (n or '-', SPEC_OF.get(v, v)) for n, v in call)))
    o = impl['outcome']
    last = src.count(b'\n')
    if sp.startswith('err') and not (o[0] == 'failure' and o[1] == 'Type' and o[2] and o[2][0] == last):
        c.violation('bind:accepts:e2e', 'the calling convention refuses %s(%s) (%s) but the compiler reports %s' % (f['path'], args, sp[:40], o[:3]), dict(func=f['path'], call=call, src=src.decode()))
    elif sp.startswith('ok') and o[0] == 'panic':
        c.violation('bind:panic:e2e', '%s(%s) panics' % (f['path'], args), dict(func=f['path'], call=call, src=src.decode()))
    c.traces_validated += 1
    c.count('e2e:' + sp.split(' ')[0] + '/' + o[0] + (':' + str(o[1]) if o[0] == 'failure' else ''))
    c.case(('e2e', f['path'], tuple(call)), dict(kind=tag, call=body[:160], impl=str(o[:2])) if c.evaluations % 300 == 0 else None)


def campaign(c):
    c.rule = RULE
    lib = Lib()
    L = 2 if c.quick else 3
    # one-call programs: every signature x every shape of length <= 1 (quick) / 2 (thorough), then random longer ones
    for f in lib.funcs:
        names = [a['name'] for a in f['args']]
        nameset = [None] + list(dict.fromkeys(([names[0]] if names else []) + (names[1:2]) + (names[-1:]))) + ['bogus']
        opts = [(n, v) for n in nameset for v in values_for(f, n if n != 'bogus' else None)[:2]]
        pos = [(None, values_for(f, a['name'])[0]) for a in f['args'] if a['kind'] == 'pos']
        for ln in range(0, (1 if c.quick else 2) + 1):
            for call in itertools.product(opts, repeat=ln):
                e2e(c, f, list(call), 'e2e-exh')
                if pos and ln: e2e(c, f, pos + list(call), 'e2e-exh')      # the mandatory parameters supplied, then the shape
    for i in range(600 if c.quick else 20000):
        r = c.rng.fork('e2e%d' % i)
        f = r.choice(lib.funcs)
        names = [a['name'] for a in f['args']]
        call = [(None, values_for(f, a['name'])[0]) for a in f['args'] if a['kind'] == 'pos'] if r.chance(1, 2) else []
        for _ in range(r.below(4)):
            n = None if r.chance(1, 2) or not names else (r.choice(names) if r.chance(5, 6) else 'nosuch')
            call.append((n, REPS[r.choice(ALLT)] if r.chance(1, 2) else r.choice(values_for(f, n))))
        e2e(c, f, call, 'e2e-rand')
    for f in lib.funcs:
        names = [a['name'] for a in f['args']]
        nameset = [None] + list(dict.fromkeys(([names[0]] if names else []) + (names[1:2]) + (names[-1:]))) + ['bogus']
        opts = []
        for n in nameset:
            for v in values_for(f, n if n != 'bogus' else None)[:3]:
                opts.append((n, v))
        for ln in range(0, L + 1):
            for call in itertools.product(opts, repeat=ln):
                check(c, f, list(call), 'exh%d' % ln)
    # the whole type relation: every parameter (and the variable tail) of every function x every one of the 15 value types,
    # by name and by position, the other mandatory parameters supplied correctly
    for f in lib.funcs:
        pos = [a for a in f['args'] if a['kind'] == 'pos']
        base = [(None, values_for(f, a['name'])[0]) for a in pos]
        for i, a in enumerate(f['args']):
            for u in ALLT:
                if a['kind'] == 'pos':
                    call = list(base); call[i] = (None, REPS[u]); check(c, f, call, 'matrix')
                    call = [(b['name'], v) for b, (_, v) in zip(pos, base)]; call[i] = (a['name'], REPS[u]); check(c, f, call, 'matrix')
                else:
                    check(c, f, base + [(a['name'], REPS[u])], 'matrix')
        if f['collect_type'] != 'Void':
            for u in ALLT:
                check(c, f, base + [(None, REPS[u])], 'matrix'); check(c, f, base + [(None, REPS[u]), (None, REPS[u])], 'matrix')
    # hand-over of the collected tail to the function body: every function with a variable tail is CALLED (real code in-process and
    # model) with tails that contain empty, repeated and typed elements in every position; the two text helpers whose result IS the
    # tail are also judged directly (collected "in order": nothing dropped, nothing reordered)
    from ..calls import call_both, val_bytes
    from .C08 import base_arg, steps_for
    tails = [[b''], [b'', b'x'], [b'x', b''], [b'', b''], [b'', b'x', b'', b'y'], [b'x', b'', b'y'], [b'a', b'a'], [b'a', b'b', b'a'], [b'', b'', b'z'], [b'\r\n', b''], [b'q']]
    for f in lib.funcs:
        if f['collect_type'] == 'Void': continue
        base = ['%s=%s' % (a['name'], base_arg(f, a)) for a in f['args'] if a['kind'] == 'pos']
        for t in tails:
            if f['collect_type'] == 'Str': extra = ['-=str:' + (x.hex() or '-') for x in t]
            elif f['collect_type'] in ('U8', 'U16', 'U32', 'U64'): extra = ['-=u16:%d' % (len(x) * 257 + 1) for x in t]
            else: extra = ['-=' + REPS[f['collect_type']] for x in t]
            steps, idx = steps_for(f, base + extra)
            res, req = call_both(c, steps, 'tail-handover')
            r = res[idx] if idx < len(res) else 'missing'
            if f['path'] in ('text::concat', 'text::crlflines'):
                want = (b'\r\n' if f['path'].endswith('crlflines') else b'').join(t)
                if val_bytes(r) != want:
                    c.violation('bind:tail-handover:' + f['path'], '%s(%s) = %s: the collected arguments are not all handed over in order' % (f['path'], [x.decode() for x in t], r[:80]), dict(func=f['path'], req=req, want=want.hex()))
            c.case(('tail', f['path'], tuple(t)), None)
    # the tail as the function body sees it: typed elements (one-, two-, four- and eight-byte integers, addresses, packets, strings)
    # arrive with their own widths - text::len of a tail is the length of text::concat of the same tail, element by element
    TY = [('u8:7', 1), ('u16:300', 2), ('u32:70000', 4), ('u64:5', 8), ('ip4:16909060', 4), ('str:616263', 3), ('str:-', 0), ('pkt:000102030405060708090a0b0c0d', 14), ('bool:true', None)]
    for n in (1, 2, 3):
        for combo in itertools.product(TY, repeat=n):
            if any(w is None for _, w in combo) and n > 1: continue
            args = ['-=' + v for v, _ in combo]
            res, req = call_both(c, [['text::len'] + args, ['text::concat'] + args], 'tail-widths')
            if res[0].startswith('ok') and res[1].startswith('ok str:'):
                want = sum(w for _, w in combo)
                ln = res[0].split(':')[-1]
                if str(want) != ln or len(val_bytes(res[1])) != want:
                    c.violation('bind:tail-handover:text::len', 'text::len(%s) = %s, text::concat of the same tail has %d bytes, the elements are %d bytes' % (args, ln, len(val_bytes(res[1])), want), dict(func='text::len', req=req))
            c.case(('tail-widths', tuple(v for v, _ in combo)), None)
    # designation end to end: every parameter of every function gets its own recognisable value (by name in declared order, by
    # name in reverse order, and positionally where possible) and the function is CALLED; the model and the real code must produce
    # the same result, and for the fixed-layout header helpers the value must sit in the field the documentation gives that name
    DV = {'U8': lambda k: 'u8:%d' % (0x11 * (k + 1) % 256), 'U16': lambda k: 'u16:%d' % (0x0101 * (k + 1) + 0x1000), 'U32': lambda k: 'u32:%d' % (0x01010101 * (k + 1)),
          'U64': lambda k: 'u64:%d' % (0x0101010101 * (k + 1)), 'Bool': lambda k: 'bool:%s' % ('true' if k % 2 else 'false'), 'Ip4': lambda k: 'ip4:%d' % (0x0a000000 + k + 1),
          'Sock4': lambda k: 'sock4:%d:%d' % (0x0a000000 + k + 1, 1000 + k), 'Str': lambda k: 'str:' + ('%02x' % (0x61 + k)) * (k + 2)}
    LAYOUT = {'dns::hdr': [('id', 0, 2), ('flags', 2, 2), ('qdcount', 4, 2), ('ancount', 6, 2), ('nscount', 8, 2), ('arcount', 10, 2)],
              'ipv4::udp::hdr': [('src', 0, 2), ('dst', 2, 2), ('csum', 6, 2)]}     # `len` is the payload length: the field holds len + 8
    for f in lib.funcs:
        vals = []
        for k, a in enumerate(f['args']):
            t = decl_type(a)[0]
            vals.append((a['name'], DV[t](k) if t in DV and not (f['path'] == 'eth::frame' and a['name'] in ('src', 'dst')) else base_arg(f, a)))
        forms = [['%s=%s' % nv for nv in vals], ['%s=%s' % nv for nv in reversed(vals)]]
        npos = len([a for a in f['args'] if a['kind'] == 'pos'])
        forms.append(['-=%s' % v for _, v in vals[:npos]] + ['%s=%s' % nv for nv in vals[npos:]])
        results = []
        for args in forms:
            steps, idx = steps_for(f, args)
            res, req = call_both(c, steps, 'designation')
            results.append(res[idx] if idx < len(res) else 'missing')
        if len(set(results)) != 1:
            c.violation('bind:designation:' + f['path'], 'the same designation spelled by name, in reverse order and by position gives different results: %s' % [r[:60] for r in results], dict(func=f['path'], req=req))
        b = val_bytes(results[0])
        want = dict(vals)
        def num(v): return int(v.split(':')[1])
        if b is not None and f['path'] in LAYOUT:
            for name, off, w in LAYOUT[f['path']]:
                if int.from_bytes(b[off:off + w], 'big') != num(want[name]):
                    c.violation('bind:designation:' + f['path'], 'the value designated for `%s` (%s) is not in that field of the result %s' % (name, want[name], b.hex()), dict(func=f['path'], req=req))
        if b is not None and f['path'] == 'dhcp::hdr':
            # every parameter of the DHCP header builder has its own field (RFC 2131 offsets, Spec.dhcpField): the value designated
            # for a parameter is in ITS field even when a neighbouring parameter (address and address length, ...) is given too
            from ..calls import kv
            fld = kv(c.model.ask('oracle frame dhcp ' + core.sh_hex(b)))
            W = dict(op=1, htype=1, hlen=1, hops=1, xid=4, secs=2, flags=2, ciaddr=4, yiaddr=4, siaddr=4, giaddr=4, chaddr=16, sname=64, file=128, magic=4)
            for pname, v in vals:
                fn_ = {'opcode': 'op'}.get(pname, pname)
                if fn_ not in W: continue
                raw = core.unhex(v.split(':')[1]) if v.startswith('str:') else int(v.split(':')[1]).to_bytes(W[fn_], 'big')
                exp = (raw[:W[fn_]] + b'\0' * W[fn_])[:W[fn_]]
                if fld.get(fn_) != exp.hex():
                    c.violation('bind:designation:dhcp::hdr', 'the value designated for `%s` (%s) is not what the field holds (%s)' % (pname, v, fld.get(fn_)), dict(func=f['path'], req=req))
        if b is not None and f['path'] in ('dns::question', 'dns::answer'):
            n = len(core.unhex(want['qname' if 'question' in f['path'] else 'aname'].split(':')[1]))    # the name argument is already in wire form (dns::name)
            tn, cn = ('qtype', 'qclass') if 'question' in f['path'] else ('atype', 'aclass')
            if int.from_bytes(b[n:n + 2], 'big') != num(want[tn]) or int.from_bytes(b[n + 2:n + 4], 'big') != num(want[cn]):
                c.violation('bind:designation:' + f['path'], '%s: TYPE/CLASS on the wire are %d/%d, designated %s/%s' % (f['path'], int.from_bytes(b[n:n + 2], 'big'), int.from_bytes(b[n + 2:n + 4], 'big'), want[tn], want[cn]), dict(func=f['path'], req=req))
        c.case(('designation', f['path']), None)
    # designated values are visible whatever the OTHER options are: the sequence-number overrides of the TCP methods (`seq:`, `ack:`)
    # appear as the two 32-bit numbers of the segment's header under every combination of the method's remaining options,
    # given in any order
    import struct
    from .. import progdiff
    S, A = 0x01020304, 0x0a0b0c0d
    for m in lib.methods.get('ipv4::tcp::TcpFlow', []):
        names = [a['name'] for a in m['args']]
        if 'seq' not in names or 'ack' not in names: continue
        mn = m['path'].split('.')[1]
        others = [[]]
        for a in m['args']:
            if a['name'] in ('seq', 'ack'): continue
            t = decl_type(a)[0]
            vals = ['true', 'false'] if t == 'Bool' else ['0', '5'] if t in ('U8', 'U16', 'U32', 'U64') else []
            if vals: others = [o + [x] for o in others for x in [None] + ['%s: %s' % (a['name'], v) for v in vals]]
        for o in others:
            o = [x for x in o if x]
            for tail in ([''] + ([', "hello"', ', ""'] if m['collect_type'] != 'Void' else [])):
                for order in (['seq: %d' % S, 'ack: %d' % A] + o, o + ['ack: %d' % A, 'seq: %d' % S], ['ack: %d' % A] + o + ['seq: %d' % S]):
                    src = 'import ipv4;\nimport eth;\nlet f = ipv4::tcp::flow(1.2.3.4:5, 6.7.8.9:80);\nlet r = f.%s(%s%s);\n' % (mn, ', '.join(order), tail)
                    if m['return_type'] == 'Str': src += 'eth::frame("|000000000001|", "|000000000002|", r);\n'; off = 14
                    else: src += 'r;\n'; off = 34
                    impl, model = progdiff.run_both(c, src.encode())
                    progdiff.compare(c, src.encode(), impl, model, 'designation-visible', times=False)
                    recs = progdiff.pcap_records(impl['file'] or b'')
                    if impl['outcome'][0] != 'success' or not recs:
                        c.violation('bind:designation:' + m['path'], 'a call with documented options is not accepted: %s' % (impl['outcome'][:3],), dict(func=m['path'], src=src))
                    else:
                        sq, ak = struct.unpack('>II', recs[0][1][off + 4:off + 12])
                        if {sq, ak} != {S, A}:
                            c.violation('bind:designation:' + m['path'], 'the values designated for `seq` and `ack` (%#x, %#x) are not the numbers in the segment header (%#x, %#x) when the call also says (%s)' % (S, A, sq, ak, ', '.join(o)), dict(func=m['path'], src=src))
                    c.traces_validated += 1
        c.case(('designation-visible', m['path']), dict(kind='designation-visible', method=m['path'], contexts=len(others)))
    # a designated value lands in the result as it is, WHATEVER the value: for every integer parameter of every function that returns
    # bytes, the field the parameter fills is located by calling the function with two neutral values (the results must differ in
    # exactly one run of bytes, holding the big-endian values); then every value that some constant of the library has (protocol
    # versions, record types, class codes ...) and the boundary values are passed - the result is the neutral result with that
    # field holding the value, nothing rewritten, nothing clamped
    from ..calls import call_both as _cb, val_bytes
    from .C08 import base_arg, steps_for
    WIDTH = {'U8': 1, 'U16': 2, 'U32': 4}
    named_vals = {w: sorted(set(int(x['def']['value']) for x in lib.consts if x['def']['type'] in ('U8', 'U16', 'U32', 'U64') and int(x['def']['value']) < 256 ** w)) for w in (1, 2, 4)}
    for f in lib.funcs:
        if f['return_type'] != 'Str' or f['path'] in ('std::be16', 'std::be32', 'std::be64', 'std::le16', 'std::le32', 'std::le64', 'std::u8'): continue
        base = ['%s=%s' % (a['name'], base_arg(f, a)) for a in f['args'] if a['kind'] == 'pos']
        for a in f['args']:
            t = decl_type(a)[0]
            if t not in WIDTH: continue
            w = WIDTH[t]
            A, B = int.from_bytes(b'\x5a\xa5\x3c\xc3'[:w], 'big'), int.from_bytes(b'\xa6\x59\xc2\x3d'[:w], 'big')
            def call_with(v):
                args = [x for x in base if not x.startswith(a['name'] + '=')] + ['%s=%s:%d' % (a['name'], t.lower(), v)]
                steps, idx = steps_for(f, args)
                res, req = _cb(c, steps, 'value-sweep')
                return (val_bytes(res[idx]) if idx < len(res) else None), req
            rA, _ = call_with(A); rB, _ = call_with(B)
            if rA is None or rB is None or len(rA) != len(rB): continue
            diff = [k for k in range(len(rA)) if rA[k] != rB[k]]
            if not diff or diff != list(range(diff[0], diff[0] + len(diff))) or len(diff) > w: continue
            pos = diff[-1] + 1 - w
            if pos < 0 or rA[pos:pos + w] != A.to_bytes(w, 'big') or rB[pos:pos + w] != B.to_bytes(w, 'big'): continue
            vals = sorted(set(named_vals[w] + [0, 1, 256 ** w - 1, 256 ** w - 2, 128, 255, 256 % 256 ** w]))
            if c.quick and len(vals) > 160: vals = vals[::max(1, len(vals) // 160)] + [v for v in (0x0300, 0x0301, 0x0302, 0x0303, 0x0304) if v < 256 ** w]
            for v in vals:
                r_, req = call_with(v)
                want = rA[:pos] + v.to_bytes(w, 'big') + rA[pos + w:]
                if r_ != want:
                    c.violation('bind:designation:' + f['path'], 'the value %#x designated for `%s` is not what the result holds at the place of that parameter (bytes %d..%d): %s' % (v, a['name'], pos, pos + w, r_[pos:pos + w].hex() if r_ else r_), dict(func=f['path'], req=req))
                    break
            c.count('value-sweep-fields')
            c.case(('value-sweep', f['path'], a['name']), dict(kind='value-sweep', func=f['path'], param=a['name'], offset=pos) if hash(f['path'] + a['name']) % 6 == 0 else None)
    # options designated when an object is CREATED are what every later call on it shows: the header options of a fragmentation
    # context (id, evil, df, ttl, proto, each given and omitted) under every kind of request (first / middle / last fragment, tail,
    # whole datagram)
    data = bytes(range(40))
    for bits in range(32):
        o = dict(id=0x1234, evil=True, df=True, ttl=33, proto=200)
        given = {k: v for j, (k, v) in enumerate(o.items()) if bits >> j & 1}
        dflt = dict(id=0, evil=False, df=False, ttl=64, proto=17)
        ctor = 'ipv4::frag(1.2.3.4, 6.7.8.9, %s"|%s|")' % (''.join('%s: %s, ' % (k, str(v).lower() if isinstance(v, bool) else v) for k, v in given.items()), data.hex())
        calls = ['fragment(0, 1)', 'fragment(1, 2)', 'fragment(2, 3)', 'fragment(0, 5)', 'fragment(4, 1)', 'tail(0)', 'tail(3)', 'datagram()']
        src = ('import ipv4;\nlet g = %s;\n' % ctor + ''.join('g.%s;\n' % x for x in calls)).encode()
        impl, model = progdiff.run_both(c, src)
        progdiff.compare(c, src, impl, model, 'designation-ctor', times=False)
        recs = progdiff.pcap_records(impl['file'] or b'')
        if impl['outcome'][0] != 'success' or len(recs) != len(calls):
            c.violation('bind:designation:ipv4::frag', 'a context with documented options is not usable: %s' % (impl['outcome'][:3],), dict(func='ipv4::frag', src=src.decode()))
        else:
            for call, (_, fr) in zip(calls, recs):
                f = dict(x.split('=', 1) for x in c.model.ask('oracle frag ' + core.sh_hex(fr[14:])).split(' ')[1:] if '=' in x)
                for k in dflt:
                    want = given.get(k, dflt[k])
                    if f.get(k) != (str(want).lower() if isinstance(want, bool) else str(want)):
                        c.violation('bind:designation:ipv4::frag', 'the value designated for `%s` when the context was created (%s) is not what %s shows (%s)' % (k, want, call, f.get(k)), dict(func='ipv4::frag', src=src.decode()))
            c.traces_validated += 1
        c.case(('designation-ctor', bits), dict(kind='designation-ctor', options=sorted(given)) if bits % 8 == 0 else None)
    c.extra['exhaustive_space'] = 'all %d signatures x call shapes of length <= %d over (5 name choices x 3 values)' % (len(lib.funcs), L)
    m = 3000 if c.quick else 100000
    for i in range(m):
        r = c.rng.fork('b%d' % i)
        f = r.choice(lib.funcs)
        names = [a['name'] for a in f['args']]
        call = []
        for _ in range(r.below(7)):
            n = None if r.chance(1, 2) or not names else (r.choice(names) if r.chance(5, 6) else 'nosuch')
            call.append((n, REPS[r.choice(ALLT)] if r.chance(1, 2) else r.choice(values_for(f, n))))
        check(c, f, call, 'rand')
    c.assumptions += ['value representatives: one value per value type; objects/methods/packets are made by real constructors in the harness']


def replay(c, data):
    d = data.get('replay') or data['disagreements'][0]['request']
    if 'req' in d:
        from ..calls import val_bytes
        hi = c.harness.ask(d['req']); mo = c.model.ask(d['req'])
        if hi != mo: c.disagree('replay', d, hi[:300], mo[:300])
        if 'want' in d and val_bytes(hi.split(' | ')[-1]) != bytes.fromhex(d['want']):
            c.violation('bind:tail-handover:' + d.get('func', '?'), 'replay: %s' % hi[:100], d)
        return
    lib = Lib()
    f = [x for x in lib.funcs if x['path'] == d['func']][0]
    check(c, f, [tuple(x) for x in d['call']], 'replay')
