"""C02 — every emitted IPv4 header is self-consistent."""
from .. import netscen

RULE = ("builder scenarios: TCP flow ops, UDP flow/unicast/broadcast(srcip)/DNS helper, ICMP echo, ipv4::datagram option "
        "grid (id, evil, df, mf, ttl, frag_off, proto), fragments, VXLAN/GRE/ERSPAN outer headers with nested inner "
        "packets, datagrams of exactly 28..65535 bytes; raw and framed; payload lengths 0/odd/even incl. sums that carry. "
        "Every IPv4 header of every real record (outer and, through the Spec decapsulators, inner) is judged by "
        "Spec.ipv4Ok and the field readers against what the script asked. Non-trivial = scenario emitted >= 1 record; "
        "distinct = (builder kind, raw, record count, source)")


def project(raw):
    # the part of a frame C02 is about: everything after the outer Ethernet header
    return (lambda f: f) if raw else (lambda f: f[14:])


def campaign(c):
    c.rule = RULE
    n = 220 if c.quick else 4000
    kinds = ['tcp', 'udp', 'unicast', 'broadcast', 'dnshost', 'icmp', 'datagram', 'frag', 'tunnel', 'sized']
    for i in range(n):
        r = c.rng.fork('c02-%d' % i)
        netscen.run_scenario(c, r, 'ip', [kinds[i % len(kinds)]] if i < 5 * len(kinds) else None, project)
    c.assumptions += ['expected header fields come from the scenario generator (what the script asked for)',
                      'tunnel layers are peeled with Spec.decap*; VXLAN is recognised from the scenario, not from port numbers']


def replay(c, data):
    from .. import progdiff
    d = data.get('replay') or data['disagreements'][0]['request']
    impl, model = progdiff.run_both(c, d['src'].encode())
    progdiff.compare(c, d['src'].encode(), impl, model, 'replay')
