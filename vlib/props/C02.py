"""C02 — every emitted IPv4 header is self-consistent."""
from .. import netscen

RULE = ("builder scenarios: TCP flow ops, UDP flow/unicast/broadcast(srcip)/DNS helper, ICMP echo, ipv4::datagram option "
        "grid (id, evil, df, mf, ttl, frag_off, proto), fragments, VXLAN/GRE/ERSPAN outer headers with nested inner "
        "packets, datagrams of exactly 28..65535 bytes; raw and framed; payload lengths 0/odd/even incl. sums that carry. "
        "Every IPv4 header of every real record (outer and, through the Spec decapsulators, inner) is judged by "
        "Spec.ipv4Ok and the field readers against what the script asked. Non-trivial = scenario emitted >= 1 record; "
        "distinct = (builder kind, raw, record count, source)")


def project(raw):
    # the part of a frame C02 is about: the outer IPv4 header, and (for tunnels, whose inner headers are
    # also C02's business) everything after it when the datagram carries GRE or a VXLAN-looking UDP payload
    def pj(f):
        d = f if raw else f[14:]
        tunnel = len(d) > 9 and (d[9] == 47 or (d[9] == 17 and d[28:32] == bytes([8, 0, 0, 0])))
        return d if tunnel else d[:20]
    return pj


def campaign(c):
    c.rule = RULE
    n = 220 if c.quick else 4000
    kinds = ['tcp', 'udp', 'unicast', 'broadcast', 'dnshost', 'icmp', 'datagram', 'frag', 'tunnel', 'sized']
    for i in range(n):
        r = c.rng.fork('c02-%d' % i)
        netscen.run_scenario(c, r, 'ip', [kinds[i % len(kinds)]] if i < 5 * len(kinds) else None, project)
    for i in range(3 if c.quick else 15):
        netscen.run_scenario(c, c.rng.fork('sweep%d' % i), 'ip', [['icmp-sweep', 'udp-sweep', 'tcp-sweep'][i % 3]], project)
    for i in range(2 if c.quick else 12):
        netscen.run_scenario(c, c.rng.fork('optgrid%d' % i), 'ip', ['opt-grid'], project)
    netscen.run_scenario(c, c.rng.fork('nonemit'), 'ip', ['non-emitting'], project)
    netscen.run_scenario(c, c.rng.fork('ports'), 'ip', ['port-classes'], project)
    for i in range(2 if c.quick else 10):
        netscen.run_scenario(c, c.rng.fork('pieces%d' % i), 'ip', ['pieces'], project)
    for i in range(3 if c.quick else 30):
        netscen.run_scenario(c, c.rng.fork('fanout%d' % i), 'ip', ['fan-out'], project)
    for i in range(2 if c.quick else 12):
        netscen.run_scenario(c, c.rng.fork('fragedge%d' % i), 'ip', ['frag-edge'], project)
    # crafted: IPv4 header sums whose first fold overflows 16 bits (identification tuned so that the low half is 0xffff)
    from .. import progdiff, core
    for i in range(12 if c.quick else 300):
        r = c.rng.fork('hc%d' % i)
        srcip, dstip = 0xffff0000 | r.below(65536), 0xfffe0000 | r.below(65536)
        ttl, proto, n = r.choice([255, 254, 200]), r.choice([255, 253, 17]), r.below(40)
        def prog(idv):
            return ('import ipv4;\nipv4::datagram(%s, %s, id: %d, ttl: %d, proto: %d, df: true, "|%s|");\n' % (netscen.ip(srcip), netscen.ip(dstip), idv, ttl, proto, 'ab' * n)).encode()
        f0 = progdiff.pcap_records(core.run_cli(prog(0))['pcap'] or b'')
        if not f0: continue
        h = bytearray(f0[0][1][14:34]); h[10:12] = b'\0\0'
        s0 = sum(int.from_bytes(h[k:k + 2], 'big') for k in range(0, 20, 2))
        idv = (0xffff - s0) & 0xffff
        src = prog(idv)
        impl, model = progdiff.run_both(c, src)
        progdiff.compare(c, src, impl, model, 'hdr-double-carry', project=project(False), times=False)
        if impl['outcome'][0] == 'success':
            e = dict(src=srcip, dst=dstip, proto=proto, id=idv, ttl=ttl, off=0, evil=False, df=True, mf=False, l4=None, eth='ip')
            netscen.judge(c, progdiff.pcap_records(impl['file'])[0][1], False, e, 'ip', dict(src=src.decode()))
            c.count('hdr-double-carry')
        c.case(('hc', i), dict(kind='hdr-double-carry', id=idv))
    c.assumptions += ['expected header fields come from the scenario generator (what the script asked for)',
                      'tunnel layers are peeled with Spec.decap*; VXLAN is recognised from the scenario, not from port numbers']


def replay(c, data):
    from .. import progdiff
    d = data.get('replay') or data['disagreements'][0]['request']
    impl, model = progdiff.run_both(c, d['src'].encode())
    progdiff.compare(c, d['src'].encode(), impl, model, 'replay')
