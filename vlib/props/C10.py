"""C10 — the lexer tokenises every line as the lexical rules prescribe, with exact columns."""
import itertools, re
from .. import core
from ..core import sh_hex

ALPHABET = ['a', 'x', 'f', 'e', 'i', 't', '_', '0', '1', '2', '5', '6', '9', '"', '|', '(', ')', '.', ':', ';', '=', ',', '/', '-', '#', ' ', '\t', '\r',
            'é', '€', ' ', '　', '４', '٣', '‿']
# the last three ALPHABET symbols: non-ASCII decimal digits (fullwidth, Arabic-Indic) and connector punctuation - what \d / \w would admit
WORDS = ['4４3', '-٥', '0x1f１', '10.0.0.２', 'a‿b', '１', 'x１', 'ⅷ', 'ª', '²', '½',
         'import', 'let', 'true', 'false', 'importx', 'let_', 'truefalse', '1.2.3.4', '1.2.3.456', '256.1.1.1', '01.2.3.4', '1.2.3', '255.255.255.255',
         '0x', '0x1f', '0xg', '-5', '-', '--1', '"a b"', '"unterminated', '""', '"|ff|"', '::', ':::', '//c', '/ /', '#c', 'a.b', 'a::b', '1.2.3.4:80',
         'é', '"é"', '​', '﻿', '\u0085', ' ', 'x y', '0x1fz', '09', '00', '1e5', 'let　x']

RULE = ("lines over a %d-symbol alphabet covering every character class the rules distinguish (letters incl. x and hex digits, "
        "digits 0 1 2 5 6 9, quote, pipe, each punctuation, minus, hash, slash, space, tab, CR, a non-ASCII letter, a non-ASCII "
        "symbol, non-ASCII whitespace): ALL strings up to length 3 (quick) / 4 (thorough), each followed by a sentinel line so "
        "that a carried string is observed; random longer lines built from the alphabet and a word list; multi-line string "
        "sequences. Real Lexer::line vs the model vs Spec.lexLine (kinds, texts, 1-based byte columns, pending, error column). "
        "Non-trivial = line yields a token or an error; distinct = the line text" % len(ALPHABET))


def norm(resp):
    return re.sub(r' end=\d+', '', resp)


def stretch(resp, p, unit, k0, k):
    """What the lexical rules prescribe when a run of `k0` copies of `unit` starting at byte offset `p` of line 1 is
    lengthened to `k` copies: the token that contains the run gets the longer text, every token (or error) that starts
    after the start of the run moves right by the added bytes, nothing else changes."""
    d = len(unit) * (k - k0)
    old, new = (unit * k0).hex(), (unit * k).hex()
    out = []
    for seg in resp.split(' | '):
        parts = seg.split(' ')
        for i, t in enumerate(parts):
            f = t.split(':')
            if len(f) == 4 and f[1] == '1':
                if old and old in f[3] and (f[0] == 'str' or (f[0] == 'ident' and int(f[2]) - 1 <= p)): f[3] = f[3].replace(old, new, 1)   # a string token is located at the token that follows it
                if int(f[2]) - 1 > p: f[2] = str(int(f[2]) + d)
                parts[i] = ':'.join(f)
            elif parts[0] == 'err' and i == 1 and seg is resp.split(' | ')[0] and int(t) - 1 > p:
                parts[i] = str(int(t) + d)
        out.append(' '.join(parts))
    return ' | '.join(out)


SPEC_MAX = 1200     # Spec.lexLine is written for clarity, not speed (quadratic): beyond this the expectation comes from `stretch`


def check(c, lines, tag, expect=None):
    req = ' '.join(sh_hex(l.encode('utf-8')) for l in lines)
    hi = c.harness.ask('lexlines ' + req)
    mo = c.model.ask('lexlines ' + req)
    if hi != mo:
        c.disagree('lex', dict(lines=lines), hi[:300], mo[:300])
    if max(len(l.encode('utf-8')) for l in lines) > SPEC_MAX:
        sp = expect
        c.count('expectation-by-stretching')
    else:
        sp = c.model.ask('oracle lex ' + req)
    if sp is not None and norm(hi) != sp:
        kind = 'error-column' if ('err' in hi and 'err' in sp) else 'tokens'
        c.violation('lex:' + kind, 'lexer and lexical rules disagree: impl=%s spec=%s' % (norm(hi)[-200:], sp[-200:]), dict(lines=lines, expect=expect, shape=[(len(l), l[:40], l[-40:]) for l in lines][:4] + [len(lines)]))
    c.traces_validated += 1
    triv = hi.startswith('ok end=') and ' | ok ' not in hi.replace('semi', 'X', 1)[:0] and False
    key = tuple(lines) if (':' in hi.split(' | ')[0] or 'err' in hi) else None
    c.count('impl:' + ('err' if 'err' in hi else 'ok'))
    c.case(key, dict(kind=tag, lines=lines, impl=hi[:160]) if key and c.evaluations % 500 == 0 else None)


def campaign(c):
    c.rule = RULE
    L = 3 if c.quick else 4
    for ln in range(0, L + 1):
        for t in itertools.product(ALPHABET, repeat=ln):
            check(c, [''.join(t), ';'], 'exh%d' % ln)
    # every ASCII character (control characters and the punctuation the language does not use included) alone, doubled, and glued
    # to a letter, a digit and a quote on either side; all pairs of printable ASCII characters
    for code in list(range(0, 10)) + list(range(11, 128)):
        ch = chr(code)
        for t in (ch, ch + ch, 'a' + ch, ch + 'a', 'a' + ch + 'b', '1' + ch + '2', ch + '1', '_' + ch + '_', 'x ' + ch + ' y', '"s"' + ch, ch + '"s"'):
            check(c, [t, ';'], 'ascii')
    pr = [chr(x) for x in range(0x20, 0x7f)]
    for a in pr:
        for b in (pr if not c.quick else pr[::3] + ['[', ']', '\\', '^', '`', '~', '{', '}', '@', '$']):
            check(c, [a + b, ';'], 'ascii2')
    c.extra['exhaustive_space'] = 'all %d^k strings for k <= %d over the class alphabet, each with a sentinel line' % (len(ALPHABET), L)
    c.exhaustive = False
    m = 1500 if c.quick else 60000
    for i in range(m):
        r = c.rng.fork('lx%d' % i)
        nl = 1 + r.below(3)
        lines = []
        for _ in range(nl):
            parts = []
            for _ in range(r.below(10)):
                k = r.below(4)
                if k == 0: parts.append(r.choice(WORDS))
                elif k == 1: parts.append(''.join(r.choice(ALPHABET) for _ in range(1 + r.below(6))))
                elif k == 2: parts.append('"%s"' % ''.join(r.choice('ab| 09f:.-é') for _ in range(r.below(8))))
                else: parts.append(r.choice(['(', ')', ';', ',', ' ', '  ', '\t', '=', '/']))
            lines.append((r.choice(['', ' ', '']) ).join(parts))
        check(c, lines + [';'], 'rand')
    # the reserved words in every mix of upper and lower case (only the exact lower-case spelling is a keyword, everything else
    # is an identifier), with the characters that simple or full case folding maps onto ASCII letters (long s, Kelvin sign,
    # dotless / dotted I), alone and glued to their usual neighbours
    for w in ('import', 'let', 'true', 'false'):
        vs = set(''.join(ch.upper() if m >> k & 1 else ch for k, ch in enumerate(w)) for m in range(1 << len(w)))
        vs |= {w.replace('s', 'ſ'), w.replace('t', 'ᵀ'), w.replace('i', 'ı'), w.replace('i', 'İ'), w.upper().replace('I', 'İ'), w.replace('l', 'ℓ'), w.replace('e', 'ｅ')}
        for v in sorted(vs):
            for t in (v, v + ';', 'x.' + v, v + '(1)', 'let ' + v + ' = ' + v + ';', '5' + v, v + '5', v + '_', '_' + v, v + ' ' + v, 'm::' + v, v + ':1', '"a"' + v):
                check(c, [t, ';'], 'keyword-case')
    # dotted quads: every 1-3 digit octet spelling (and some longer ones) in each of the four positions
    octs = ['%d' % i for i in range(0, 300)] + ['0%d' % i for i in range(0, 100, 7)] + ['00%d' % i for i in range(10)] + ['1000', '2550', '0255', '']
    if c.quick: octs = octs[::3] + ['199', '200', '201', '249', '250', '255', '256', '25', '26', '2']
    for o in octs:
        for pos in range(4):
            q = ['1', '22', '133', '4']; q[pos] = o
            check(c, ['x = %s;' % '.'.join(q), ';'], 'quad')
        check(c, ['%s.%s.%s.%s %s.9.9.9:%s' % (o, o, o, o, o, o), ';'], 'quad')
    # directed: strings carried across lines
    for a, b in [('f("a"', '"b");'), ('"a"', '"b" "c" ;'), ('x("|41 4"', '"2|");'), ('f(""', ');'), ('"only"', ''), ('f("a" // c', '"b")')]:
        check(c, [a, b, ';'], 'carry')
    # long lines and many lines: columns and line numbers around 2^8 and 2^16 (tokens after a long string, after long
    # whitespace, after a long comment-free identifier; an un-lexable character there)
    for col in [255, 256, 257, 65535, 65536, 65537, 70012] + ([] if c.quick else [4095, 4096, 131072, 1 << 20]):
        for pre, unit, k, post in [('let p = "', 'A', col - 12, '" )'), ('let p = "', 'A', col - 12, '" @'), ('', ' ', col - 1, 'x y'),
                                   ('', 'é', (col - 1) // 2, ' ' * ((col - 1) % 2) + ' = 5'), ('', 'a', col - 1, '|'), ('f(', '"" ', col // 3, ');')]:
            k0 = 3
            short = ' '.join(sh_hex(l.encode('utf-8')) for l in [pre + unit * k0 + post, ';'])
            exp = stretch(c.model.ask('oracle lex ' + short), len(pre.encode()), unit.encode(), k0, k)
            check(c, [pre + unit * k + post, ';'], 'longline', exp)
    for nl in [255, 256, 65535, 65536, 65541]:
        check(c, [''] * (nl - 1) + ['x "s" y @'], 'manylines')
        check(c, ['"a"'] + [''] * (nl - 2) + ['"b" ;'], 'manylines')
    for lines in [['"only"'], ['f(1);', '"junk"'], ['f(1);', '""'], ['""', '', '  // c'], ['f("a"', '"b"'], ['f(1);']]:
        check(c, lines, 'eof')
    # direct probe of the statement (theorem pending_empty_kept)
    hi = c.harness.ask('lexlines ' + ' '.join(sh_hex(l.encode()) for l in ['f(""', ');']))
    if 'str:' not in hi:
        c.violation('lex:empty-carry', 'an empty string literal carried across a line break is lost: f("" <newline> ); lexes without a string token', dict(lines=['f(""', ');']))
    c.assumptions += ['lines are valid UTF-8 without an interior newline except where the request says otherwise (BufRead::lines guarantees it)']


def replay(c, data):
    d = data.get('replay') or data['disagreements'][0]['request']
    check(c, d['lines'], 'replay', d.get('expect'))
