"""C16 — DNS, NetBIOS and DHCP builders emit messages an independent decoder reads back."""
import itertools
from .. import core
from ..calls import call_both, val_bytes, kv, s
from ..core import sh_hex

RULE = ("in-process calls of the real dns::host (names of 1-63 byte labels of arbitrary non-dot bytes, 0..n addresses, ttl, ns, raw), "
        "dns::flags and netbios::ns::flags over ALL 2^8 flag combinations x a grid of opcodes/rcodes (quick: sampled), dns::name in its "
        "three forms, dns::pointer over the offset range, netbios::name::encode for every length 0..17, dhcp::hdr with every field "
        "incl. over-long chaddr/sname/file. The bytes the REAL code returns are decoded by Spec/Dns.lean (RFC 1035 message decoder, "
        "RFC 1001 decoder, RFC 2131 field reader). Non-trivial = call succeeded; distinct = (helper, parameters)")

FL = ['response', 'aa', 'tc', 'rd', 'ra', 'z', 'ad', 'cd']
SPEC_FL = ['qr', 'aa', 'tc', 'rd', 'ra', 'z', 'ad', 'cd']


def parse(c, kind, b):
    return c.model.ask('oracle frame %s %s' % (kind, sh_hex(b)))


def bad(c, what, detail, rep):
    c.violation('proto:' + what, detail, rep)


def label(r):
    n = r.choice([1, 1, 2, 3, 8, 63]) if r.chance(3, 4) else 1 + r.below(63)
    if r.chance(1, 5):
        # bytes that mean something in zone-file / presentation syntax, at the start, in the middle and at the END of a label
        sp = r.choice([b'\\', b'\\\\', b'@', b'*', b'"', b'\x00', b'\xff', b' ', b'(', b';', b'$', b'_', b'\\0', b'\\.'.replace(b'.', b'')])
        base = bytes(r.choice(b'abcxyz019-') for _ in range(max(0, min(n, 60) - len(sp))))
        k = r.choice([0, len(base) // 2, len(base)])
        return (base[:k] + sp + base[k:])[:63] or b'\\'
    return bytes(x if x != 46 else 45 for x in r.bytes(n)) if r.chance(1, 3) else bytes(r.choice(b'abcdefghijklmnopqrstuvwxyz0123456789-') for _ in range(n))


WIRELIKE = [[b'\x03www\x07example\x03com\x00'], [b'\x05ab', b'cd\x00'], [b'\x01a\x00'], [b'\xc0\x0c'], [b'\x00'], [b'\x03abc'], [b'a', b'\x01b\x00'], [b'\x02', b'\x00']]


def host(c, r, i):
    labels = [label(r) for _ in range(1 + r.below(4))]
    if r.chance(1, 8): labels = list(r.choice(WIRELIKE))        # text that already looks like an encoded name / a pointer: still just labels
    if i % 6 == 5:
        # names that read as something richer than a name (an authority with a port, a URL, an address literal, a mail address, a
        # service label): every byte that is not a dot belongs to a label
        labels = r.choice(['www.example.com:8080', 'a:1', 'a:b', ':80', 'a:', 'a:1.com', 'http://x', 'user@example.com', '[::1]', '::1', 'a/b', 'a?b=c', '_sip._tcp.example.com',
                           '*.example.com', 'xn--nxasmq6b.com', '10.0.0.1', '10.0.0.1:53', 'a b.c', 'A.B', 'a\\.b.c']).encode().split(b'.')
    name = b'.'.join(labels)
    ips = [r.below(2 ** 32) for _ in range(r.choice([0, 1, 2, 5, 40]) if not r.chance(1, 12) else r.choice([255, 256, 257, 1000]))]   # counts around 2^8 too
    if ips and r.chance(1, 2):      # repeated addresses, adjacent and not
        k = r.below(len(ips)); ips.insert(k, ips[k])
        if r.chance(1, 2): ips.append(ips[0])
    client, ns, ttl, raw = r.below(2 ** 32), r.choice([0x01010101, r.below(2 ** 32)]), r.choice([229, 0, 2 ** 32 - 1, r.below(2 ** 32)]), r.chance(1, 3)
    args = ['-=ip4:%d' % client, '-=' + s(name)] + (['ttl=u32:%d' % ttl] if ttl != 229 else []) + (['ns=ip4:%d' % ns] if ns != 0x01010101 else []) + (['raw=bool:true'] if raw else []) + ['-=ip4:%d' % x for x in ips]
    res, req = call_both(c, [['dns::host'] + args])
    rep = dict(req=req[:60000])
    if not res[0].startswith('ok pktgen:['):
        bad(c, 'host-failed', 'dns::host failed: %s' % res[0][:100], rep); return None
    frames = [core.unhex(x) for x in res[0][len('ok pktgen:['):-1].split(',')]
    if len(frames) != 2:
        bad(c, 'host-count', 'dns::host produced %d packets' % len(frames), rep); return None
    q = kv(parse(c, 'udpframe:%d' % (1 if raw else 0), frames[0])); a = kv(parse(c, 'udpframe:%d' % (1 if raw else 0), frames[1]))
    if not q or not a:
        bad(c, 'host-udp', 'query/response is not a UDP datagram', rep); return None
    if not (q['sip'] == a['dip'] == str(client) and q['dip'] == a['sip'] == str(ns) and q['sport'] == a['dport'] == '32768' and q['dport'] == a['sport'] == '53'):
        bad(c, 'host-sockets', 'response is not the mirror of the query socket pair: %s / %s' % ({k: q[k] for k in ('sip', 'sport', 'dip', 'dport')}, {k: a[k] for k in ('sip', 'sport', 'dip', 'dport')}), rep)
    mq = parse(c, 'dnsmsg', core.unhex(q['payload'])); ma = parse(c, 'dnsmsg', core.unhex(a['payload']))
    if not mq.startswith('ok') or not ma.startswith('ok'):
        bad(c, 'host-undecodable', 'the DNS decoder does not parse the messages completely: %s / %s' % (mq[:40], ma[:40]), rep); return None
    fq, fa = kv(mq), kv(ma)
    qn = '.'.join(sh_hex(l) for l in labels)
    want_q = '[%s 1 1]' % qn
    if fq['id'] != fa['id']: bad(c, 'host-id', 'transaction ids differ', rep)
    if fq['qr'] != 'false' or fa['qr'] != 'true': bad(c, 'host-qr', 'QR bits wrong (query %s, response %s)' % (fq['qr'], fa['qr']), rep)
    if mq.split(' q=')[1].split(' an=')[0] != want_q or ma.split(' q=')[1].split(' an=')[0] != want_q:
        bad(c, 'host-question', 'question does not echo the supplied name', rep)
    if fa['counts'].split(',')[1] != str(len(ips)) or fq['counts'] != '1,0,0,0':
        bad(c, 'host-ancount', 'answer count %s, %d addresses supplied' % (fa['counts'], len(ips)), rep)
    want_an = ';'.join('[%s 1 1 %d %s]' % (qn, ttl, sh_hex(x.to_bytes(4, 'big'))) for x in ips)
    if ma.split(' an=')[1] != want_an:
        bad(c, 'host-answers', 'answers do not carry the name, TTL and addresses supplied', rep)
    return ('host', len(labels), len(ips), raw)


def flags(c, fn, op, bits, rc, rep_every):
    args = ['-=u8:%d' % op] + ['%s=bool:%s' % (('b' if (n == 'cd' and fn.startswith('netbios')) else n), 'true' if b else 'false') for n, b in zip(FL, bits)] + ['rcode=u8:%d' % rc]
    res, req = call_both(c, [[fn] + args])
    rep = dict(req=req)
    if not res[0].startswith('ok u16:'):
        bad(c, 'flags-failed', '%s failed: %s' % (fn, res[0][:80]), rep); return
    w = int(res[0][7:])
    f = kv(parse(c, 'flags', w.to_bytes(2, 'big')))
    want = dict(zip(SPEC_FL, [str(b).lower() for b in bits])); want['opcode'] = str(op % 16); want['rcode'] = str(rc % 16)
    wrong = [k for k in want if f.get(k) != want[k]]
    if wrong:
        bad(c, 'flags-bits', '%s sets the wrong bits/fields %s for opcode=%d rcode=%d bits=%s (word %#06x)' % (fn, wrong, op, rc, bits, w), rep)


def campaign(c):
    c.rule = RULE
    n = 150 if c.quick else 3000
    for i in range(n):
        r = c.rng.fork('host%d' % i)
        key = host(c, r, i)
        c.traces_validated += 1
        c.case(key, dict(kind='dns::host', key=str(key)) if i % 30 == 0 else None)
    # flags: all 2^8 combinations x opcode/rcode grid
    ops = [0, 1, 2, 4, 5, 6, 15, 16, 255] if not c.quick else [0, 5, 15, 255]
    rcs = [0, 1, 3, 5, 10, 15, 16, 255] if not c.quick else [0, 3, 15, 16]
    for bits in itertools.product([False, True], repeat=8):
        for op in ops:
            for rc in rcs:
                if c.quick and (sum(bits) * 7 + op + rc) % 5: continue
                for fn in ('dns::flags', 'netbios::ns::flags'):
                    flags(c, fn, op, bits, rc, 0)
                    c.case(('flags', fn, op, bits, rc), None)
    c.extra['exhaustive_space'] = 'all 2^8 flag combinations x %d opcodes x %d rcodes x {dns::flags, netbios::ns::flags}%s' % (len(ops), len(rcs), ' (1/5 sample in quick)' if c.quick else '')
    # names
    for i in range(100 if c.quick else 2000):
        r = c.rng.fork('name%d' % i)
        labels = [label(r) for _ in range(r.below(5))]
        form = r.below(3)
        if form == 0 and labels:   # single dotted argument
            res, req = call_both(c, [['dns::name', '-=' + s(b'.'.join(labels))]])
        elif form == 1:            # one argument per label
            res, req = call_both(c, [['dns::name'] + ['-=' + s(l) for l in labels]])
            if len(labels) == 1 and b'.' in labels[0]: continue
        else:                      # incomplete + explicit root
            form = 2
            res, req = call_both(c, [['dns::name', 'complete=bool:false'] + ['-=' + s(l) for l in labels]])
        b = val_bytes(res[0]); rep = dict(req=req)
        if b is None: bad(c, 'name-failed', 'dns::name failed', rep); continue
        if form == 2: b = b + b'\0'
        f = kv(parse(c, 'name', b))
        if f.get('labels', None) != '.'.join(sh_hex(l) for l in labels) or f.get('rest') != '-':
            bad(c, 'name-encoding', 'name does not decode back to its labels (form %d): %s' % (form, f), rep)
        c.case(('name', form, tuple(len(l) for l in labels)), dict(kind='dns::name', req=req[:200]) if i % 25 == 0 else None)
    for off in ([0, 1, 12, 255, 256, 0x3fff] if c.quick else list(range(0, 0x4000, 97)) + [0x3fff]):
        res, req = call_both(c, [['dns::pointer', 'offset=u16:%d' % off]])
        b = val_bytes(res[0])
        f = kv(parse(c, 'pointer', b or b''))
        if f.get('off') != str(off) or (b and b[0] & 0xc0 != 0xc0):
            bad(c, 'pointer', 'compression pointer does not carry offset %d' % off, dict(req=req))
        c.case(('ptr', off), None)
    # netbios names: every length 0..17, suffixes
    for ln in range(0, 18):
        for suffix in [0, 0x20, 0x1b, 255]:
            r = c.rng.fork('nb%d-%d' % (ln, suffix))
            name = bytes(r.choice(b'ABCDEFGHIJKLMNOPQRSTUVWXYZ0123456789 -\x00\xff') for _ in range(ln))
            res, req = call_both(c, [['netbios::name::encode', 'suffix=u8:%d' % suffix, '-=' + s(name)]])
            rep = dict(req=req)
            if ln > 15:
                if not res[0].startswith('err'): bad(c, 'netbios-long', 'a %d-byte NetBIOS name was not refused' % ln, rep)
            else:
                b = val_bytes(res[0])
                f = kv(parse(c, 'netbios', b or b''))
                if f.get('name') != sh_hex(name + b' ' * (15 - ln) + bytes([suffix])):
                    bad(c, 'netbios-encoding', 'NetBIOS name does not decode to the padded name and suffix', rep)
            c.case(('nb', ln, suffix), dict(kind='netbios', len=ln) if suffix == 0 and ln % 6 == 0 else None)
    # every one-byte name and the names with a conventional meaning (wildcard, browser election, ...)
    # names made long by padding: trailing / leading spaces and NULs count towards the 15-byte limit like any other byte
    for core_name in (b'', b'A', b'WORKGROUP', b'ACCOUNTING12345'):
        for pad in (b' ', b'\x00'):
            for total in (14, 15, 16, 17, 18, 32):
                if total < len(core_name): continue
                for name in (core_name + pad * (total - len(core_name)), pad * (total - len(core_name)) + core_name):
                    res, req = call_both(c, [['netbios::name::encode', 'suffix=u8:32', '-=' + s(name)]])
                    if len(name) > 15:
                        if not res[0].startswith('err'): bad(c, 'netbios-long', 'a %d-byte NetBIOS name (%r) was not refused' % (len(name), name), dict(req=req))
                    else:
                        f = kv(parse(c, 'netbios', val_bytes(res[0]) or b''))
                        if f.get('name') != sh_hex(name + b' ' * (15 - len(name)) + b' '):
                            bad(c, 'netbios-encoding', 'NetBIOS name %r does not decode to the padded name and suffix' % name, dict(req=req))
                    c.case(('nbpad', name), None)
    special = [bytes([x]) for x in range(256)] + [b'**', b'*SMBSERVER', b'WORKGROUP', b'\x01\x02__MSBROWSE__\x02', b'*' * 15, b'* ', b' *', b'*\x00']
    for name in special:
        for suffix in ([0, 0x20] if len(name) == 1 else [0, 0x1d, 0x20]):
            res, req = call_both(c, [['netbios::name::encode', 'suffix=u8:%d' % suffix, '-=' + s(name)]])
            b = val_bytes(res[0])
            f = kv(parse(c, 'netbios', b or b''))
            if f.get('name') != sh_hex(name + b' ' * (15 - len(name)) + bytes([suffix])):
                bad(c, 'netbios-encoding', 'NetBIOS name %r does not decode to the padded name and suffix' % name, dict(req=req))
            c.case(('nbs', name, suffix), None)
    # dhcp header
    for i in range(60 if c.quick else 1500):
        r = c.rng.fork('dhcp%d' % i)
        v = dict(opcode=r.below(256), htype=r.below(256), hlen=r.below(256), hops=r.below(256), xid=r.below(2 ** 32), magic=r.choice([0x63825363, r.below(2 ** 32)]))
        ips = dict(ciaddr=r.below(2 ** 32), yiaddr=r.below(2 ** 32), siaddr=r.below(2 ** 32), giaddr=r.below(2 ** 32))
        bufs = dict(chaddr=(r.bytes(r.choice([0, 6, 16, 17, 40])), 16), sname=(r.bytes(r.choice([0, 10, 64, 65, 100])), 64), file=(r.bytes(r.choice([0, 1, 128, 129, 300])), 128))
        args = []
        want = {}
        for k, x in v.items():
            w = 4 if k in ('xid', 'magic') else 1
            if r.chance(3, 4): args.append('%s=%s:%d' % (k, 'u32' if w == 4 else 'u8', x)); want[{'opcode': 'op'}.get(k, k)] = x.to_bytes(w, 'big')
        for k, x in ips.items():
            if r.chance(3, 4): args.append('%s=ip4:%d' % (k, x)); want[k] = x.to_bytes(4, 'big')
        for k, (x, w) in bufs.items():
            if r.chance(3, 4): args.append('%s=%s' % (k, s(x))); want[k] = (x[:w] + b'\0' * w)[:w]
        res, req = call_both(c, [['dhcp::hdr'] + args])
        b = val_bytes(res[0]); rep = dict(req=req[:2000])
        if b is None: bad(c, 'dhcp-failed', 'dhcp::hdr failed: %s' % res[0][:60], rep); continue
        f = kv(parse(c, 'dhcp', b))
        dfl = dict(op=b'\x01', htype=b'\x01', hlen=b'\x06', hops=b'\0', xid=b'\0' * 4, secs=b'\0\0', flags=b'\0\0', ciaddr=b'\0' * 4, yiaddr=b'\0' * 4, siaddr=b'\0' * 4,
                   giaddr=b'\0' * 4, chaddr=b'\0' * 16, sname=b'\0' * 64, file=b'\0' * 128, magic=bytes.fromhex('63825363'))
        dfl.update(want)
        wrong = [k for k, x in dfl.items() if f.get(k) != sh_hex(x)]
        if f.get('len') != '240' or wrong or b[236:] != dfl['magic']:
            bad(c, 'dhcp-layout', 'DHCP header fields %s are not at their RFC 2131 offsets / widths (len %s)' % (wrong, f.get('len')), rep)
        c.case(('dhcp', tuple(sorted(want))), dict(kind='dhcp::hdr', req=req[:200]) if i % 20 == 0 else None)
    # byte-string fields given as TEXT that spells something a helper might want to interpret (a MAC address in the usual
    # notations, dotted quads, hex, host names, paths): the field holds those bytes, padded or cut to its width
    TEXTY = [b'78:24:af:23:f0:a9', b'DE-AD-be-ef-00-01', b'78-24-af-23-f0-a9', b'7824.af23.f0a9', b'192.168.1.1', b'0x7824af23f0a9', b'7824af23f0a9', b'00:00:00:00:00:00',
             b'ff:ff:ff:ff:ff:ff', b'boot.example.com', b'/tftpboot/pxelinux.0', b'\\\\server\\share', b' padded ', b'trailing\n', b'%s%n', b'a=b;c', b'[::1]', b'1', b'']
    for fld, w in (('chaddr', 16), ('sname', 64), ('file', 128)):
        for t in TEXTY:
            for extra in ([], ['hlen=u8:16'], ['htype=u8:6', 'hlen=u8:%d' % min(len(t), 255)]):
                res, req = call_both(c, [['dhcp::hdr', '%s=%s' % (fld, s(t))] + extra])
                b = val_bytes(res[0]); rep = dict(req=req)
                if b is None: bad(c, 'dhcp-failed', 'dhcp::hdr failed: %s' % res[0][:60], rep); continue
                f = kv(parse(c, 'dhcp', b))
                if f.get(fld) != sh_hex((t[:w] + b'\0' * w)[:w]) or f.get('len') != '240':
                    bad(c, 'dhcp-layout', 'dhcp::hdr(%s: %r): the field does not hold the bytes supplied (padded / cut to %d)' % (fld, t, w), rep)
                want_hlen = [x for x in extra if x.startswith('hlen=')]
                if f.get('hlen') != ('%02x' % int(want_hlen[0].split(':')[1]) if want_hlen else '06'):
                    bad(c, 'dhcp-layout', 'dhcp::hdr(%s: %r, %s): hlen is %s' % (fld, t, extra, f.get('hlen')), rep)
        c.case(('dhcp-text', fld), dict(kind='dhcp-text', field=fld))
    c.assumptions += ['names are restricted to non-empty labels of at most 63 non-dot bytes (the property\'s quantifier)']


def replay(c, data):
    d = data.get('replay') or data['disagreements'][0]['request']
    hi = c.harness.ask(d['req']); mo = c.model.ask(d['req'])
    if hi != mo: c.disagree('replay', d, hi[:300], mo[:300])
