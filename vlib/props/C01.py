"""C01 — successful runs yield a well-formed pcap holding exactly the emitted packets."""
from .. import core, progdiff
from ..core import sh_hex

RULE = ("type-directed random programs (library signature catalogue) + shipped examples + size sweep of bare frames "
        "14..65535 bytes; a case is non-trivial when the run succeeds and writes at least one record; distinct = "
        "distinct (record count, total bytes, sha of source)")


def oracle(c, src, impl, model):
    """Spec.parsePcap / pcapWellFormed on the REAL file; record list against the model's emission list."""
    if impl['outcome'][0] != 'success' or impl['file'] is None:
        return
    r = c.model.ask('oracle pcap ' + sh_hex(impl['file']))
    if not r.startswith('ok'):
        c.violation('pcap-malformed', 'Spec.pcapWellFormed is false on the file written by the implementation: ' + r,
                    dict(src=src.decode('utf-8', 'replace'), over_stale_output=CUR['stale']))
        return
    parts = r.split(' ')
    recs = [tuple(int(x) for x in e.split(':')) for e in parts[2].split(',')] if len(parts) > 2 and parts[2] else []
    if model['outcome'][0] == 'success':
        mrecs = progdiff.pcap_records(model['file'])
        if len(recs) != len(mrecs) or any(a[1] != len(b[1]) for a, b in zip(recs, mrecs)):
            c.violation('record-list', 'records in the file differ from the emitted packets (count/lengths) %d vs %d' % (len(recs), len(mrecs)),
                        dict(src=src.decode('utf-8', 'replace')))
    c.traces_validated += 1
    return recs


STALE = [None]
CUR = dict(stale=False)

def one(c, src, tag, files=None):
    # every third case is compiled over an output path that already holds an older, longer file (the previous
    # successful output followed by 4 KiB): "exactly the emitted packets, nothing trailing" has to hold there too
    prefill = None
    if STALE[0] is not None and c.evaluations % 3 == 2:
        prefill = STALE[0] + b'\xa5' * 4096; c.count('over-stale-output')
    CUR['stale'] = prefill is not None
    impl, model = progdiff.run_both(c, src, files, prefill=prefill)
    if impl['outcome'][0] == 'success' and impl['file'] and len(impl['file']) > 24 and prefill is None: STALE[0] = impl['file']
    progdiff.compare(c, src, impl, model)
    recs = oracle(c, src, impl, model)
    if impl['outcome'][0] == 'success' and prefill is None and c.evaluations % 4 == 1:
        # the options that only concern failures (-k) or the console (-v, --color) leave a successful output untouched
        for flags in (['-k'], ['-v'], ['-k', '-v', '--color', 'always']):
            other = core.run_cli(src, files=files, extra_args=flags)
            if other['pcap'] != impl['file'] or other['rc'] != 0:
                c.violation('pcap-option:' + ' '.join(flags), 'with %s a successful run writes a different file (%s bytes vs %d)' % (' '.join(flags), len(other['pcap']) if other['pcap'] is not None else None, len(impl['file'] or b'')),
                            dict(src=src.decode('utf-8', 'replace'), flags=flags))
        c.count('option-variants')
    if impl['outcome'][0] == 'success' and prefill is None and c.evaluations % 5 == 2 and files is None:
        # the source handed over through something that is not a regular file (a pipe on /dev/stdin, a named pipe): what is
        # compiled is the text that arrives, so the output is the same file
        import os, subprocess, tempfile, shutil, threading
        d = tempfile.mkdtemp(prefix='rspipe')
        try:
            out = os.path.join(d, 'o.pcap')
            p1 = subprocess.run([core.CLI, '-o', out, '/dev/stdin'], input=src, capture_output=True, cwd=d, timeout=120)
            got1 = open(out, 'rb').read() if os.path.exists(out) else None
            fifo = os.path.join(d, 'src.rsyn'); os.mkfifo(fifo)
            def feed():
                with open(fifo, 'wb') as fh:
                    for k in range(0, len(src), 37): fh.write(src[k:k + 37]); fh.flush()      # in small pieces
            th = threading.Thread(target=feed); th.start()
            out2 = os.path.join(d, 'o2.pcap')
            p2 = subprocess.run([core.CLI, '-o', out2, fifo], capture_output=True, cwd=d, timeout=120)
            th.join(10)
            got2 = open(out2, 'rb').read() if os.path.exists(out2) else None
            for how, pr, got in (('a pipe on /dev/stdin', p1, got1), ('a named pipe', p2, got2)):
                if pr.returncode != 0 or got != impl['file']:
                    c.violation('pcap-source-kind', 'the same source read from %s compiles to something else (exit %d, %s bytes vs %d)' % (how, pr.returncode, len(got) if got is not None else None, len(impl['file'])),
                                dict(src=src.decode('utf-8', 'replace'), via=how))
        finally:
            shutil.rmtree(d, ignore_errors=True)
        c.count('source-through-pipes')
    key = None
    if recs:
        key = (len(recs), sum(r[1] for r in recs), hash(src))
        c.count('records', len(recs))
    c.count('outcome:' + impl['outcome'][0] + (':' + str(impl['outcome'][1]) if impl['outcome'][0] == 'failure' else ''))
    c.case(key, dict(kind=tag, src=src.decode('utf-8', 'replace')[:400], outcome=str(impl['outcome']), records=len(recs or [])) if key else None)


def size_sweep_program(n):
    """a bare Ethernet frame of exactly n bytes (n >= 14) built by doubling a let-bound string"""
    pay = n - 14
    lines = ['import eth;', 'import text;', 'let a0 = "|00|";']
    k = 0
    while (1 << (k + 1)) <= max(pay, 1):
        lines.append('let a%d = text::concat(a%d, a%d);' % (k + 1, k, k)); k += 1
    parts = [('a%d' % i) for i in range(k + 1) if pay >> i & 1]
    lines.append('let p = eth::frame("|000000000001|", "|000000000002|", %s);' % ', '.join(parts) if parts
                 else 'let p = eth::frame("|000000000001|", "|000000000002|");')
    lines.append('p;'); lines.append('p;')
    return ('\n'.join(lines) + '\n').encode()


def campaign(c):
    c.rule = RULE
    import glob, os, re
    for f in sorted(glob.glob(core.REPO + '/examples/*.rsyn')):
        src = open(f, 'rb').read()
        files = {}
        for m in re.finditer(rb'io::file\(\s*"([^"]+)"', src):
            p = os.path.join(core.REPO, m.group(1).decode())
            if os.path.exists(p): files[m.group(1).decode()] = open(p, 'rb').read()
        if files:
            continue   # paths relative to the repo root; covered by C05/C19 campaigns
        one(c, src, 'example:' + os.path.basename(f))
    one(c, b'', 'empty')
    one(c, b'\n\n# nothing\n', 'empty')
    sizes = [14, 15, 16, 29, 30, 31, 60, 1514, 8191, 8192, 8193, 65535, 65536, 65549] if c.quick else \
        [14, 15, 16, 17, 29, 30, 31, 59, 60, 61, 64, 1500, 1514, 4095, 8175, 8176, 8177, 8191, 8192, 8193, 16383, 32768, 65534, 65535, 65536, 65548, 65549, 65550, 70000]
    for n in sizes:
        one(c, size_sweep_program(n), 'size%d' % n)
        c.count('size_sweep')
    # stored packet sequences (sizes going up and down) emitted by name, several times and in other orders
    for i in range(25 if c.quick else 400):
        r = c.rng.fork('stored%d' % i)
        L = ['import ipv4;', 'import eth;', 'let f = ipv4::tcp::flow(1.2.3.4:5, 6.7.8.9:80);', 'let u = ipv4::udp::flow(1.2.3.4:5, 6.7.8.9:53);']
        names = []
        for k in range(1 + r.below(4)):
            kind = r.below(4)
            if kind == 0: e = 'f.client_message("|%s|")' % r.bytes(1 + r.below(120)).hex()
            elif kind == 1: e = 'f.open()'
            elif kind == 2: e = 'f.server_message("|%s|")' % r.bytes(1 + r.below(60)).hex()
            else: e = 'u.client_dgram("|%s|")' % r.bytes(r.below(90)).hex()
            L.append('let s%d = %s;' % (k, e)); names.append('s%d' % k)
        for k in range(r.below(3)):      # a stored value bound to a second (third) name: every name still emits it
            L.append('let al%d = %s;' % (k, r.choice(names))); names.append('al%d' % k)
        for _ in range(1 + r.below(6)):
            if r.chance(1, 5): L.append(r.choice(['import ipv4;', 'import eth;']))      # importing again is legal and changes nothing
            L.append(r.choice(names) + ';')
        if r.chance(1, 2): L.append('f.client_close();')
        for _ in range(r.below(3)): L.append(r.choice(names) + ';')
        one(c, (('\n' if i % 2 else ' ').join(L) + ('\n' if i % 3 else '')).encode(), 'stored')
    n = 150 if c.quick else 2500
    from ..gen import join_lines
    for i, src, g in progdiff.generated_programs(c, n):
        if i % 3 == 1:      # several statements per source line: records still in statement order
            src = join_lines(src, c.rng.fork('join%d' % i)); c.count('several-statements-per-line')
        if i % 4 == 3:      # the last line is not terminated by a newline (or ends in CR LF / a lone CR)
            src = src.rstrip(b'\n') + [b'', b'\r\n', b'\r', b' ', b'\n\n'][i // 4 % 5]; c.count('unterminated-last-line')
        one(c, src, 'gen')
        for k, v in g.stats.items():
            if k.startswith('call:'): c.count(k, v)
    # several inputs with explicit output names (-o, paired with the inputs in the order given), inputs listed in ascending,
    # descending and mixed order of their names: every named file holds the packets of ITS program
    import os, subprocess, tempfile, shutil, itertools
    d = tempfile.mkdtemp(prefix='rsout')
    try:
        progsrc = {'web': b'import ipv4;\nlet f = ipv4::tcp::flow(1.2.3.4:5, 6.7.8.9:80);\nf.open();\nf.client_message("GET");\n',
                   'lookup': b'import dns;\ndns::host(1.2.3.4, "a.example", 10.0.0.1);\n', 'a': b'import eth;\neth::frame("|000000000001|", "|000000000002|", "one");\n',
                   'zz': b'import ipv4;\nlet i = ipv4::icmp::flow(1.2.3.4, 6.7.8.9);\ni.echo("x");\ni.echo("y");\ni.echo_reply("z");\n'}
        alone = {}
        for nme, sb in progsrc.items():
            open(os.path.join(d, nme + '.rsyn'), 'wb').write(sb)
            alone[nme] = core.run_cli(sb)['pcap']
        for order in list(itertools.permutations(sorted(progsrc), 2)) + [('web', 'lookup', 'a', 'zz'), ('zz', 'web', 'a', 'lookup'), ('lookup', 'zz', 'web', 'a')]:
            argv = [core.CLI]
            for nme in order: argv += ['-o', os.path.join(d, 'out-' + nme + '.pcap')]
            argv += [os.path.join(d, nme + '.rsyn') for nme in order]
            pr = subprocess.run(argv, capture_output=True, cwd=d, timeout=120)
            for nme in order:
                f = os.path.join(d, 'out-' + nme + '.pcap')
                got = open(f, 'rb').read() if os.path.exists(f) else None
                if pr.returncode != 0 or got != alone[nme]:
                    c.violation('pcap-output-pairing', 'inputs %s with one -o each: the file named for %s does not hold the packets of %s.rsyn (exit %d, %s bytes vs %d)' % (list(order), nme, nme, pr.returncode, len(got) if got is not None else None, len(alone[nme])),
                                dict(order=list(order), out=pr.stdout.decode('utf-8', 'replace').replace(d, '<T>')[-300:]))
                    break
                if os.path.exists(f): os.remove(f)
            c.case(('output-pairing', order), dict(kind='output-pairing', order=list(order)) if len(order) > 2 else None)
    finally:
        shutil.rmtree(d, ignore_errors=True)
    c.assumptions += ['the pcap reader Spec.parsePcap is the reference for well-formedness',
                      'snap-length word of the global header is not constrained by the property']


def replay(c, data):
    src = data['replay']['src'].encode() if 'replay' in data else data['disagreements'][0]['request']['src'].encode()
    if data.get('replay', {}).get('over_stale_output'):
        STALE[0] = b'\xd4\xc3\xb2\xa1' + b'\x5a' * 9000
        c.evaluations = 2
    one(c, src, 'replay')
