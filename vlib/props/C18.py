"""C18 — Ethernet framing is uniform, raw mode removes exactly the Ethernet header."""
from .. import netscen, core, progdiff
from ..core import sh_hex

RULE = ("every IP-level builder scenario is compiled twice by the real binary, framed and raw, from the same random choices: "
        "framed records must equal Spec.ethFrame(raw record) (MACs 00:02+address octets from the record's own IP header, "
        "type 0x0800; all-ones destination for broadcast) and be byte-identical after the first 14 bytes; eth::frame is "
        "checked for wire order on random 6-byte addresses and ethertypes; eth::from_ip against Spec.macOfIp. "
        "Non-trivial = >= 1 record; distinct = (kind, count, source)")


def project(raw):
    return (lambda f: b'') if raw else (lambda f: f[:14])


def campaign(c):
    c.rule = RULE
    kinds = ['tcp', 'udp', 'unicast', 'broadcast', 'dnshost', 'icmp', 'frag', 'tunnel', 'datagram', 'tunbc']
    n = 120 if c.quick else 2500
    for i in range(n + 6):
        seed = c.rng.fork('c18-%d' % i)
        k = [kinds[i % len(kinds)]] if i < n else [['non-emitting', 'fan-out', 'port-classes'][i % 3]]
        r1 = core.Rng(seed.s); r2 = core.Rng(seed.s)
        _, sf = netscen.build(r1, False, k, c.quick)
        _, sr = netscen.build(r2, True, k, c.quick)
        srcf, srcr = sf.program(), sr.program()
        implf, modelf = progdiff.run_both(c, srcf)
        progdiff.compare(c, srcf, implf, modelf, 'eth:' + k[0], project=project(False), times=False)
        key = None
        rep = dict(src=srcf.decode()[:3000])
        if implf['outcome'][0] == 'panic':
            c.violation('eth:panic', 'implementation panicked: %s' % (implf['outcome'][1],), rep)
        elif implf['outcome'][0] == 'success':
            F = [x[1] for x in progdiff.pcap_records(implf['file'] or b'')]
            for fr, e in zip(F, sf.exp):
                netscen.judge(c, fr, e.get('traw', False) if 'tunnel' in e else False, e, 'eth', rep)
            if k[0] not in ('datagram',) and not any('tunnel' in e for e in sf.exp):
                resr = core.run_cli(srcr)
                R = [x[1] for x in progdiff.pcap_records(resr['pcap'] or b'')]
                if len(R) != len(F):
                    c.violation('eth:raw-count', 'raw variant emits %d records, framed %d' % (len(R), len(F)), rep)
                else:
                    for a, b in zip(F, R):
                        if a[14:] != b:
                            c.violation('eth:raw-differs', 'raw mode changes more than the 14-byte Ethernet header', rep); break
                    c.count('raw-pairs', len(R))
            c.traces_validated += 1
            if F: key = (k[0], len(F), hash(srcf))
        c.count('scenario:' + k[0])
        c.case(key, dict(kind=k[0], src=srcf.decode()[:400]) if key else None)
    # tunnel outer packets: every kind x session parameters (the GRE protocol type is only a label) x raw omitted / false / true
    sess = [('vxlan::session(A:1000, B:4789%s)', ['', ', sessionid: 0', ', sessionid: 16777215']),
            ('gre::session(A, B%s)', [', 0x0800', ', 0x86dd', ', 0x6558', ', 0x88be', ', 0', ', 0xffff', ', 0x0806', ', 2048']),
            ('erspan1::session(A, B%s)', ['']), ('erspan2::session(A, B%s)', ['', '@, port_index: 0', '@, port_index: 7', '@, port_index: 1048575'])]
    inner0 = 'eth::frame("|000000000001|", "|000000000002|", "|c0ffee|")'
    for tmpl, params in sess:
        for pi, par in enumerate(params):
            inner = inner0 + (par[1:] if par.startswith('@') else '')       # per-call options of encap (ERSPAN II port index)
            par = '' if par.startswith('@') else par
            r = c.rng.fork('tun-%s-%d' % (tmpl[:4], pi))
            a, b = netscen.addr(r), netscen.addr(r)
            recs = {}
            for rawarg in ('', ', raw: false', ', raw: true'):
                prog = ('import eth;\nimport vxlan;\nimport gre;\nimport erspan1;\nimport erspan2;\nlet t = %s;\nt.encap(%s);\nt.encap(%s);\n'
                        % ((tmpl % (par + rawarg)).replace('A', netscen.ip(a)).replace('B', netscen.ip(b)), inner, inner)).encode()
                impl, model = progdiff.run_both(c, prog)
                progdiff.compare(c, prog, impl, model, 'eth:tunnel-outer', project=project(rawarg.endswith('true')), times=False)
                recs[rawarg] = ([x[1] for x in progdiff.pcap_records(impl['file'] or b'')], prog.decode())
            R = recs[', raw: true'][0]
            for rawarg in ('', ', raw: false'):
                F, ps = recs[rawarg]
                want = bytes([0, 2]) + b.to_bytes(4, 'big') + bytes([0, 2]) + a.to_bytes(4, 'big') + b'\x08\x00'
                if len(F) != 2 or len(R) != 2:
                    c.violation('eth:tunnel-count', 'tunnel session emits %d framed / %d raw records for two packets' % (len(F), len(R)), dict(src=ps))
                elif any(f[14:] != x for f, x in zip(F, R)):
                    c.violation('eth:raw-differs', 'tunnel outer packet: raw mode changes more than the 14-byte Ethernet header (or the header is missing without raw)', dict(src=ps))
                elif any(netscen.facts(c, f, False) is None or netscen.facts(c, f, False)['ethok'] != 'true' or f[:14] != want for f in F):
                    c.violation('eth:macs', 'tunnel outer packet: Ethernet header is not (mac(dst ip), mac(src ip), 0x0800)', dict(src=ps))
            c.count('tunnel-outer-grid')
            c.case(('tunnel-outer', tmpl, par), dict(kind='tunnel-outer', session=tmpl % par))
    # raw mode is a property of the CALL for the builders that are plain functions: the same call framed, raw, raw, framed in one
    # program (same end points, so that anything remembered between calls would show)
    CALLS = ['ipv4::udp::unicast(A:1000, B:53RAW, "|c0ffee|")', 'ipv4::udp::broadcast(A:68, 255.255.255.255:67RAW, "|c0ffee|")', 'dns::host(A, "a.example", ns: BRAW, 10.0.0.1)',
             'ipv4::udp::unicast(src: A:1000, dst: B:53RAW, "")', 'g.datagram(RAW0)', 'g.fragment(0, 1RAW)', 'g.tail(1RAW)']
    for ci, call in enumerate(CALLS):
        r = c.rng.fork('mixedraw%d' % ci)
        a, b = netscen.addr(r), netscen.addr(r)
        for pattern in ([0, 1, 1, 0], [1, 0, 0, 1], [1, 1, 0, 1]):
            def spell(raw):
                x = call.replace('RAW0', 'raw: true' if raw else '').replace('RAW', ', raw: true' if raw else '')
                return x.replace('A', netscen.ip(a)).replace('B', netscen.ip(b))
            prog = ('import ipv4;\nimport dns;\nlet g = ipv4::frag(%s, %s, "0123456789abcdef");\n' % (netscen.ip(a), netscen.ip(b)) + ''.join(spell(x) + ';\n' for x in pattern)).encode()
            impl, model = progdiff.run_both(c, prog)
            progdiff.compare(c, prog, impl, model, 'eth:mixed-raw', project=lambda f: f[:14] if f[:1] != b'\x45' else b'', times=False)
            recs = [x[1] for x in progdiff.pcap_records(impl['file'] or b'')]
            per = len(recs) // len(pattern) if recs else 0
            if impl['outcome'][0] != 'success' or per == 0 or len(recs) != per * len(pattern):
                c.violation('eth:raw-count', 'mixed raw / framed calls: %s, %d records' % (impl['outcome'][:2], len(recs)), dict(src=prog.decode())); continue
            groups = [recs[k * per:(k + 1) * per] for k in range(len(pattern))]
            rawref = [g for g, x in zip(groups, pattern) if x][0]
            for g, x in zip(groups, pattern):
                for fr, rr in zip(g, rawref):
                    ok = (fr == rr) if x else (fr[14:] == rr and netscen.facts(c, fr, False) is not None and (netscen.facts(c, fr, False)['ethok'] == 'true' or netscen.facts(c, fr, False).get('ethbc') == 'true'))
                    if not ok:
                        c.violation('eth:raw-differs', 'the same call with and without `raw: true` in one program: a %s packet is not the raw packet %s the 14-byte Ethernet header' % ('raw' if x else 'framed', 'without' if x else 'with'), dict(src=prog.decode())); break
        c.case(('mixed-raw-calls', ci), dict(kind='mixed-raw-calls', call=call))
    # eth::frame wire order, eth::from_ip
    for i in range(30 if c.quick else 500):
        r = c.rng.fork('frame%d' % i)
        src_mac, dst_mac, et, pl = r.bytes(6), r.bytes(6), r.choice([0x0800, 0x86dd, 0x8100, 0, 1, 46, 1499, 1500, 1501, 1536, 65535, r.below(65536), r.below(2048)]), r.bytes(r.below(40))
        ipn = r.below(2 ** 32)
        prog = ('import eth;\nimport ipv4;\neth::frame("|%s|", "|%s|", ethertype: %d, "|%s|");\n'
                'eth::frame(eth::from_ip(%s), eth::BROADCAST);\n' % (src_mac.hex(), dst_mac.hex(), et, pl.hex(), netscen.ip(ipn))).encode()
        impl, model = progdiff.run_both(c, prog)
        progdiff.compare(c, prog, impl, model, 'eth::frame')
        if impl['outcome'][0] == 'success':
            F = [x[1] for x in progdiff.pcap_records(impl['file'])]
            want0 = dst_mac + src_mac + et.to_bytes(2, 'big') + pl
            want1 = b'\xff' * 6 + bytes([0, 2]) + ipn.to_bytes(4, 'big') + b'\x08\x00'
            if len(F) != 2 or F[0] != want0:
                c.violation('eth:frame-order', 'eth::frame does not emit destination, source, type, payload in wire order', dict(src=prog.decode()))
            elif F[1] != want1:
                c.violation('eth:from_ip', 'eth::from_ip / eth::BROADCAST wrong', dict(src=prog.decode()))
        c.case(('frame', i), dict(kind='eth::frame', src=prog.decode()[:300]))
    c.assumptions += ['the raw twin of a scenario is generated from the same random choices']


def replay(c, data):
    d = data.get('replay') or data['disagreements'][0]['request']
    impl, model = progdiff.run_both(c, d['src'].encode())
    progdiff.compare(c, d['src'].encode(), impl, model, 'replay')
