"""C08 — the compiler is total and fail-safe: success, or a diagnostic — never a panic."""
import os, subprocess, tempfile, shutil
from .. import core, progdiff
from ..calls import call_both
from ..gen import Lib, ProgGen, mutate, compatible, CLASS_OF
from .C11 import REPS, ALLT, decl_type

PROOF_MODULES = ['Resynth.Props.C08', 'Resynth.Props.C08File', 'Resynth.Props.C08Batch', 'Resynth.Props.C08Loc', 'Resynth.Props.C08Pos']

RULE = ("(1) in-process: every function and method of the real library x every parameter x every value type the language can produce "
        "(15 types) and boundary values (0, max of each width, empty and 70 kB strings, 6/7-byte MACs), plus call shapes with missing/"
        "surplus/duplicated/unknown arguments, under catch_unwind; (2) reference shapes (module/class/constant/function/method/object/"
        "string used as value, callee, member, module path) through the real binary; (3) source-file fuzz: type-directed programs, "
        "token/byte mutations, random bytes, invalid UTF-8, CR/LF variants, batches with a failing member; (4) nesting-depth probes. "
        "Every run must end in success (exit 0, well-formed pcap) or a diagnostic naming the input with a position inside the file "
        "(exit 1, no output file), never a panic/abort/hang; the model must agree on the outcome class and position. "
        "Non-trivial = any case; distinct = the request/source")

CTOR = {'ipv4::tcp::TcpFlow': ['ipv4::tcp::flow', '-=sock4:16909060:1000', '-=sock4:84281096:80'],
        'ipv4::udp::UdpFlow': ['ipv4::udp::flow', '-=sock4:16909060:1000', '-=sock4:84281096:53'],
        'ipv4::icmp::Icmp': ['ipv4::icmp::flow', '-=ip4:16909060', '-=ip4:84281096'],
        'ipv4::IpFrag': ['ipv4::frag', '-=ip4:16909060', '-=ip4:84281096', '-=str:' + bytes(range(40)).hex()],
        'vxlan::Vxlan': ['vxlan::session', '-=sock4:16909060:1000', '-=sock4:84281096:4789'],
        'gre::Gre': ['gre::session', '-=ip4:16909060', '-=ip4:84281096', '-=u64:25944'],
        'erspan1::Erspan1': ['erspan1::session', '-=ip4:16909060', '-=ip4:84281096'],
        'erspan2::Erspan2': ['erspan2::session', '-=ip4:16909060', '-=ip4:84281096'],
        'io::BufIO': ['io::bufio', '-=str:00010203040506070809']}
BOUND = {'Bool': ['bool:false'], 'U8': ['u8:0', 'u8:255'], 'U16': ['u16:0', 'u16:65535'], 'U32': ['u32:0', 'u32:4294967295'],
         'U64': ['u64:0', 'u64:18446744073709551615', 'u64:65536', 'u64:4294967296'], 'Ip4': ['ip4:0', 'ip4:4294967295'],
         'Sock4': ['sock4:0:0', 'sock4:4294967295:65535'], 'Str': ['str:-', 'str:' + '41' * 70000, 'str:000102030405', 'str:00010203040506'],
         'PktGen': ['pktgen:[]', 'pkt:00'], 'Pkt': ['pkt:-', 'pkt:' + '00' * 15]}


def base_arg(f, a):
    t, _ = decl_type(a)
    if f['path'] == 'eth::frame' and a['name'] in ('src', 'dst'): return 'str:020000000001'
    return REPS[t]


def steps_for(f, args):
    if '.' in f['path']:
        cls, m = f['path'].split('.')
        return [CTOR[cls], ['$0.' + m] + args], 1
    return [[f['path']] + args], 0


def run_call(c, f, args, tag):
    steps, idx = steps_for(f, args)
    res, req = call_both(c, steps, 'call')
    r = res[idx] if idx < len(res) else 'missing'
    if r.startswith('panic') or r.startswith('DIED'):
        c.violation('total:panic:call:' + f['path'], '%s panicked in-process: %s' % (f['path'], req[:300]), dict(req=req[:3000]))
    c.count('call:' + r.split(' ')[0] + (':' + r.split(' ')[1] if r.startswith('err') else ''))
    c.case((f['path'], tuple(args)), dict(kind=tag, req=req[:200], impl=r[:80]) if c.evaluations % 300 == 0 else None)


REFSHAPES = [
    'x;', 'x.y;', 'x.y.z;', 'x();', 'a::b;', 'a::b::c();', 'ipv4;', 'ipv4();', 'ipv4.x;', 'ipv4::tcp;', 'ipv4::tcp();', 'ipv4::tcp.x;',
    'ipv4::tcp::TcpFlow;', 'ipv4::tcp::TcpFlow();', 'ipv4::tcp::TcpFlow.open;', 'ipv4::tcp::TcpFlow.open();', 'ipv4::nosuch;', 'ipv4::nosuch::x;',
    'ipv4::proto::TCP;', 'ipv4::proto::TCP();', 'ipv4::proto::TCP.x;', 'ipv4::proto::TCP.x();', 'ipv4::proto::TCP::x;', 'text::CRLF;', 'text::CRLF.x;', 'text::CRLF.x.y;', 'text::CRLF();',
    'text::concat;', 'text::concat.x;', 'text::concat.x();', 'text::concat::x;', 'std::be16;', 'f;', 'f();', 'f.open;', 'f.open.x;', 'f.open.x();', 'f.nosuch;', 'f.nosuch();', 'f.open(1);',
    'f::open();', 's;', 's();', 's.len;', 's.len();', 'n;', 'n();', 'n.x;', 'p;', 'p();', 'p.x();', 'g;', 'g();', 'g.encap();', 'b.read;', 'b.read();', 'b.read(1, 2);',
    'let f = 1;', 'let q = f;', 'let q = f.open;', 'let q = std::be16; q(1);', 'let q = f.open; q();', 'let q = text::CRLF; q;', 'time::jump_nanos;',
    'ipv4::tcp::flow;', 'ipv4::tcp::flow(1.2.3.4:1);', 'ipv4::tcp::flow(1.2.3.4:1, 5.6.7.8:2, 1, 1, true, 9);', 'eth::BROADCAST;', 'eth::BROADCAST(1);',
    '1.2.3.4/true;', 'let z = 1.2.3.4/true;', 'let z = 1.2.3.4/f;', 'let z = f/1;', 'let z = 1/2;', 'let z = 1.2.3.4/5/6;', 'let z = 1.2.3.4:5/6;',
]
REF_PRELUDE = ('import ipv4;\nimport text;\nimport std;\nimport time;\nimport eth;\nimport io;\nimport gre;\nlet f = ipv4::tcp::flow(1.2.3.4:1, 5.6.7.8:2);\nlet s = "str";\n'
               'let n = 5;\nlet p = f.client_ack();\nlet g = f.open();\nlet b = io::bufio("abc");\n')


def judge_cli(c, src, impl, model, tag, files=None):
    """the fail-safe contract on the real binary's behaviour + agreement with the model"""
    rep = dict(src=src.decode('utf-8', 'replace')[:3000], src_hex=src.hex()[:6000])
    o = impl['outcome']
    if o[0] == 'panic':
        c.violation('total:panic:' + tag, 'the compiler panicked/aborted: %s' % (o[1],), rep)
    elif o[0] == 'success':
        if impl['file'] is None: c.violation('total:no-output', 'success reported but no output file', rep)
        else:
            r = c.model.ask('oracle pcap ' + core.sh_hex(impl['file']))
            if not r.startswith('ok'): c.violation('total:bad-output', 'success reported but the output is not a well-formed pcap', rep)
    else:
        nlines = src.count(b'\n') + 1
        if impl['file'] is not None: c.violation('total:output-kept', 'failing run left an output file behind', rep)
        if impl['rc'] != 1: c.violation('total:exit-status', 'failing run exit status %d' % impl['rc'], rep)
        if o[2] is None: c.violation('total:no-diagnostic', 'non-zero exit without a diagnostic naming the input', rep)
        elif o[2] != (0, 0) and not (1 <= o[2][0] <= nlines):
            c.violation('total:position', 'diagnostic position %s outside the file (%d lines)' % (o[2], nlines), rep)
        elif o[2] == (0, 0) and o[1] not in ('Io', 'Parse'):
            c.violation('total:no-position', 'diagnostic of class %s carries no position' % o[1], rep)
    if not progdiff.compare(c, src, impl, model, 'total:' + tag):
        pass
    c.count('cli:' + o[0] + (':' + str(o[1]) if o[0] == 'failure' else ''))


def campaign(c):
    c.rule = RULE
    lib = Lib()
    # (1) in-process grid
    for f in lib.funcs:
        base = {a['name']: base_arg(f, a) for a in f['args'] if a['kind'] == 'pos'}
        def mk(over=None, extra=(), drop=None):
            args = []
            for a in f['args']:
                if a['kind'] == 'pos' and a['name'] != drop:
                    args.append('%s=%s' % (a['name'], (over or {}).get(a['name'], base[a['name']])))
            for k, v in (over or {}).items():
                if k not in base: args.append('%s=%s' % (k, v))
            return args + list(extra)
        run_call(c, f, mk(), 'baseline')
        for a in f['args']:
            t, _ = decl_type(a)
            for ty in ALLT:
                run_call(c, f, mk({a['name']: REPS[ty]}), 'type-grid')
            for v in BOUND.get(t, []):
                run_call(c, f, mk({a['name']: v}), 'boundary')
            if a['kind'] == 'pos':
                run_call(c, f, mk(drop=a['name']), 'missing')
                # a mandatory parameter left out while optional ones are supplied by name (as many, or more, than are missing)
                opts = [(o['name'], REPS.get(decl_type(o)[0], 'nil')) for o in f['args'] if o['kind'] != 'pos']
                for cnt in sorted(set([1, 2, len(opts)])):
                    if 0 < cnt <= len(opts):
                        run_call(c, f, mk(dict(opts[:cnt]), drop=a['name']), 'missing+named')
                        run_call(c, f, mk(dict(opts[-cnt:]), drop=a['name']), 'missing+named')
        for ty in ALLT:
            run_call(c, f, mk(extra=['-=' + REPS[ty]]), 'extra')
            run_call(c, f, mk(extra=['-=' + REPS[ty], '-=' + REPS[ty], 'bogus=' + REPS[ty]]), 'extra2')
        for v in BOUND['Str']:
            run_call(c, f, mk(extra=['-=' + v, '-=' + v]), 'extra-boundary')
        if f['args']:
            run_call(c, f, mk(extra=['%s=%s' % (f['args'][0]['name'], base_arg(f, f['args'][0]))]), 'duplicate')
    # pairs of parameters at boundary values together (one bounds what the other may hold: a length field and its buffer, two
    # addends, a flag and a count): every pair of parameters of every function x boundary values of their types
    PB = {'Bool': ['bool:true'], 'U8': ['u8:255', 'u8:17'], 'U16': ['u16:65535'], 'U32': ['u32:4294967295'], 'U64': ['u64:18446744073709551615', 'u64:65536'],
          'Ip4': ['ip4:4294967295'], 'Sock4': ['sock4:4294967295:65535'], 'Str': ['str:-', 'str:' + '5a' * 17, 'str:' + '41' * 300]}
    for f in lib.funcs:
        base = {a['name']: base_arg(f, a) for a in f['args'] if a['kind'] == 'pos'}
        ps = [(a['name'], decl_type(a)[0]) for a in f['args']]
        for x in range(len(ps)):
            for y in range(x + 1, len(ps)):
                for vx in PB.get(ps[x][1], []):
                    for vy in PB.get(ps[y][1], []):
                        over = dict(base); over[ps[x][0]] = vx; over[ps[y][0]] = vy
                        args = ['%s=%s' % (k, v) for k, v in over.items()]
                        run_call(c, f, args, 'pair-boundary')
        if f['collect_type'] == 'Str':
            for a in f['args']:
                for va in PB.get(decl_type(a)[0], []):
                    over = dict(base); over[a['name']] = va
                    run_call(c, f, ['%s=%s' % (k, v) for k, v in over.items()] + ['-=str:' + '41' * 300, '-=str:-'], 'pair-boundary')
    c.extra['call_grid'] = '%d functions x parameters x 15 value types + boundary values + parameter pairs at boundary values' % len(lib.funcs)
    # method sequences on stateful objects (exec on evolving state)
    for i in range(60 if c.quick else 2000):
        r = c.rng.fork('seq%d' % i)
        cls = r.choice(list(CTOR))
        steps = [CTOR[cls]]
        for _ in range(1 + r.below(8)):
            m = r.choice(lib.methods[cls])
            args = []
            for a in m['args']:
                if a['kind'] == 'pos' or r.chance(1, 3):
                    t, _ = decl_type(a)
                    args.append('%s=%s' % (a['name'], r.choice(BOUND.get(t, []) + [REPS[t]]) if t in REPS else 'nil'))
            if m['collect_type'] != 'Void':
                for _ in range(r.below(3)): args.append('-=' + r.choice(BOUND['Str'][:1] + [REPS['Str'], 'str:' + r.bytes(r.below(30)).hex()]))
            steps.append(['$0.' + m['path'].split('.')[1]] + args)
        res, req = call_both(c, steps, 'method-sequence')
        if any(x.startswith(('panic', 'DIED')) for x in res):
            c.violation('total:panic:sequence:' + cls, 'a method sequence panicked: %s' % req[:300], dict(req=req[:3000]))
        c.case(('seq', i), dict(kind='method-sequence', req=req[:200]) if i % 20 == 0 else None)
    # boundary values on an object that already has state: every method of a class after every method of that class, each integer
    # parameter of the second call at each boundary value of its type (a counter that is fine from a fresh object may not be
    # after a step)
    for cls in CTOR:
        ms = lib.methods[cls]
        def mbase(m): return ['%s=%s' % (a['name'], base_arg(m, a)) for a in m['args'] if a['kind'] == 'pos'] + (['-=str:616263'] if m['collect_type'] == 'Str' else [])
        for m1 in ms:
            for m2 in ms:
                for a in m2['args']:
                    t = decl_type(a)[0]
                    if t not in ('U8', 'U16', 'U32', 'U64'): continue
                    for v in BOUND[t]:
                        args2 = [x for x in mbase(m2) if not x.startswith(a['name'] + '=')] + ['%s=%s' % (a['name'], v)]
                        steps = [CTOR[cls], ['$0.' + m1['path'].split('.')[1]] + mbase(m1), ['$0.' + m2['path'].split('.')[1]] + args2]
                        res, req = call_both(c, steps, 'boundary-after-step')
                        if any(x.startswith(('panic', 'DIED')) for x in res):
                            c.violation('total:panic:sequence:' + cls, '%s with %s=%s after %s panics' % (m2['path'], a['name'], v, m1['path']), dict(req=req[:3000]))
        c.case(('boundary-after-step', cls), dict(kind='boundary-after-step', cls=cls))
    # (2) reference shapes
    for shape in REFSHAPES:
        src = (REF_PRELUDE + shape + '\n').encode()
        impl, model = progdiff.run_both(c, src)
        judge_cli(c, src, impl, model, 'refshape')
        c.case(('ref', shape), dict(kind='refshape', shape=shape, outcome=str(impl['outcome'])) if len(shape) % 5 == 0 else None)
    # (2b) values that end up in diagnostics (discarded-value warning, "not callable"): strings of every length with
    #      ASCII / multi-byte / invalid-UTF-8 content at every alignment
    for L in range(0, 140, 1 if not c.quick else 3):
        for tail in ('é', '€', '|ff|', '|c3|', 'x', '😀'):
            body = 'a' * L + tail + 'b' * (L % 7)
            for tmpl in ('import text;\ntext::concat("%s");\n', 'import text;\nlet s = text::concat("%s");\ns();\n', 'import text;\nlet s = "%s";\ns.x;\ns;\n'):
                src = (tmpl % body).encode('utf-8')
                impl, model = progdiff.run_both(c, src)
                judge_cli(c, src, impl, model, 'diag-value')
        c.case(('diag', L), dict(kind='diag-value', length=L) if L % 20 == 0 else None)
    # (2c) literal spellings the lexer lets through but the value conversion may refuse: every octet spelling class in each
    #      position of a dotted quad (bare and as the address of a socket literal), integers and hex around 2^64, odd strings
    octs = ['0', '00', '000', '01', '001', '007', '010', '09', '099', '100', '199', '200', '249', '250', '255', '256', '260', '299', '300', '999', '0255', '1000']
    lits = []
    for o in (octs if not c.quick else octs[::2] + ['01', '010']):
        for pos in range(4):
            q = ['10', '0', '3', '4']; q[pos] = o
            lits += ['.'.join(q), '.'.join(q) + ':80']
    lits += ['0', '00', '007', '18446744073709551615', '18446744073709551616', '99999999999999999999999999', '0x0', '0x00000000000000000', '0xffffffffffffffff',
             '0x10000000000000000', '0x1ffffffffffffffff', '0x123456789abcdef01', '0xFFFF', '0Xff', '1.2.3.4:65535', '1.2.3.4:65536', '1.2.3.4:0x10', '1.2.3.4:00080',
             '"|0|"', '"|zz|"', '"|"', '"a|"', '"|00 1|"', '"\\"', 'true', 'false', 'truex', '-1', '1e3']
    for l in lits:
        for tmpl in ('let x = %s;\n', 'import text;\ntext::concat(%s);\n'):
            src = (tmpl % l).encode()
            impl, model = progdiff.run_both(c, src)
            judge_cli(c, src, impl, model, 'literal')
        c.case(('lit', l), dict(kind='literal', text=l) if len(l) % 4 == 0 else None)
    # (3) source fuzz
    n = 150 if c.quick else 6000
    for i in range(n):
        r = c.rng.fork('fz%d' % i)
        src = ProgGen(lib, r, max_stmts=8, payload_max=30).program()
        k = r.below(10)
        if k < 6:
            for _ in range(1 + r.below(3)): src = mutate(src, r)
        elif k == 6: src = r.bytes(r.below(200))
        elif k == 7: src = src.replace(b'\n', b'\r\n')
        elif k == 8: src = src[:r.below(len(src) + 1)] + bytes([r.choice([0xff, 0xc3, 0xe2, 0x80, 0x00])]) + src[r.below(len(src) + 1):]
        if k == 9 or i % 4 == 0:
            from ..gen import join_lines
            src = join_lines(src, r, (2, 3))       # several statements per line: the failing one may stand behind others on its line
        impl, model = progdiff.run_both(c, src)
        judge_cli(c, src, impl, model, 'fuzz')
        if impl['outcome'][0] == 'failure' and impl['outcome'][1] != 'Io' and model['outcome'][0] == 'failure':
            # asked to keep it (-k): what a failed run leaves behind is the output of the statements completed before the failing
            # one (Model/Cli.lean addStmtsKeep) - header included, nothing of the failing statement
            kept = core.run_cli(src, extra_args=['-k'])['pcap']
            if kept != model['file']:
                c.disagree('kept-output', dict(src=src.decode('utf-8', 'replace')[:3000]), 'kept %s bytes' % (len(kept) if kept is not None else None), 'model %d bytes' % len(model['file']))
            c.count('kept-output-compared')
        c.case(('fz', hash(src)), dict(kind='fuzz', src=src.decode('utf-8', 'replace')[:200], outcome=str(impl['outcome'])) if i % 25 == 0 else None)
    # batch with a failing member: the others are still compiled
    d = tempfile.mkdtemp(prefix='rsb')
    try:
        good = b'import eth;\neth::frame("|000000000001|", "|000000000002|");\n'
        for j, bad in enumerate([b'let x = ;\n', b'@\n', b'import nosuch;\n', b'\xff\xfe\n', b'import eth;\neth::frame("|00|", "|00|");\n']):
            names = ['a', 'bad', 'z']
            for nme, s in zip(names, [good, bad, good]): open(os.path.join(d, nme + '.rsyn'), 'wb').write(s)
            p = subprocess.run([core.CLI, '--out-dir', d] + [os.path.join(d, nme + '.rsyn') for nme in names], capture_output=True, timeout=60)
            okf = [os.path.exists(os.path.join(d, nme + '.pcap')) for nme in names]
            if p.returncode != 1 or okf != [True, False, True] or b'panicked' in p.stderr:
                c.violation('total:batch', 'a failing input disturbed its batch: rc=%d outputs=%s' % (p.returncode, okf), dict(bad=bad.decode('utf-8', 'replace')))
            for nme in names:
                try: os.remove(os.path.join(d, nme + '.pcap'))
                except OSError: pass
            c.case(('batch', j), dict(kind='batch', bad=bad.decode('utf-8', 'replace')))
        # the command-line loop against its model (Model/Batch.lean): random batches of valid, mutated and unreadable inputs, same
        # and different stems, with and without --keep; exit status, one report per input in order, resulting output directory
        from .. import batch
        for j in range(25 if c.quick else 400):
            r = c.rng.fork('bat%d' % j)
            ins = []
            for k in range(1 + r.below(4)):
                kind = r.below(8)
                srcb = ProgGen(lib, r, max_stmts=4, payload_max=20).program()
                if kind == 0: srcb = mutate(srcb, r)
                elif kind == 1: srcb = r.choice([b'let x = ;\n', b'@\n', b'import nosuch;\n', b'\xff\xfe\n', b'import eth;\neth::frame("|00|", "|00|");\n', b'', b'"junk"'])
                i = dict(stem=r.choice(['a', 'b', 'c', 'a', 'z.y', 'é']), src=srcb)
                if kind == 2: i = dict(stem=i['stem'], src=None)
                elif kind == 3: i = dict(stem=i['stem'], src=None, isdir=True)
                elif kind == 4 and r.chance(1, 3): i = dict(stem=None, src=None)
                ins.append(i)
            keep = r.chance(1, 3)
            # every sixth batch: an output directory in which nothing can be created (each input gets its diagnostic, none is skipped)
            nodir = r.choice(['missing', 'deep', 'under-file', 'under-proc']) if j % 6 == 5 else False
            if nodir: c.count('batch-outdir:' + nodir)
            impl, model = batch.compare(c, ins, keep=keep, outdir_missing=nodir, what='batch')
            if 'panic' in impl['reports']:
                c.violation('total:panic:batch', 'a batch run panicked: %s' % impl['stderr'][-200:], dict(out=impl['stdout'][-400:]))
            elif (impl['exit'] == 0) != all(x == 'ok' for x in impl['reports']) or len(impl['reports']) != len(ins):
                c.violation('total:batch-status', 'exit status %s does not reflect the reports %s' % (impl['exit'], impl['reports']), dict(out=impl['stdout'][-400:]))
            c.case(('batchrun', j), dict(kind='batch-model', n=len(ins), keep=keep, reports=impl['reports']) if j % 5 == 0 else None)
        for nodir in ('missing', 'deep', 'under-file', 'under-proc'):
            for ins in ([dict(stem='a', src=good)], [dict(stem='a', src=good), dict(stem='bad', src=b'let x = ;\n'), dict(stem='z', src=good)]):
                impl, model = batch.compare(c, ins, outdir_missing=nodir, what='batch')
                if 'panic' in impl['reports'] or impl['exit'] not in (0, 1):
                    c.violation('total:panic:batch-outdir', 'output directory %s: the run died (exit %s): %s' % (nodir, impl['exit'], impl['stderr'][-200:]), dict(outdir=nodir, n=len(ins)))
                elif len(impl['reports']) != len(ins):
                    c.violation('total:batch-status', 'output directory %s: %d inputs, %d reports' % (nodir, len(ins), len(impl['reports'])), dict(outdir=nodir, out=impl['stdout'][-400:]))
                c.case(('batch-outdir', nodir, len(ins)), dict(kind='batch-outdir', outdir=nodir, reports=impl['reports']))
        # path without a file name, missing file
        for args in (['..'], ['/'], [os.path.join(d, 'nope.rsyn')], ['']):
            p = subprocess.run([core.CLI, '--out-dir', d] + args, capture_output=True, timeout=60, cwd=d)
            if b'panicked' in p.stderr or p.returncode not in (1, 2):
                c.violation('total:panic:cli-path', 'input path %r: rc=%d %s' % (args, p.returncode, p.stderr[-120:]), dict(args=args))
            c.case(('path', args[0]), None)
    finally:
        shutil.rmtree(d, ignore_errors=True)
    # (3-) success means a well-formed output file also when the output path already held something longer (an earlier compile of
    #      a bigger program, unrelated bytes): generated programs compiled over stale files of several kinds
    for i, srcb, g in progdiff.generated_programs(c, 24 if c.quick else 400, max_stmts=5, payload_max=40):
        stale = [b'\xd4\xc3\xb2\xa1' + b'\x5a' * 9000, bytes(range(256)) * 64, b'\x4d\x3c\xb2\xa1\x02\x00\x04\x00' + b'\0' * 16 + b'\xff' * 5000][i % 3]
        impl, model = progdiff.run_both(c, srcb, prefill=stale)
        judge_cli(c, srcb, impl, model, 'stale-output')
    # (3a) an error raised while EXECUTING a statement is reported at a line within that statement - for every class of such an
    #      error, a statement that spans one or several lines, as the last statement of the file or not, with and without
    #      remarks, blank lines and further text after it
    FAILING = [('Name', 'let z = text::concat("a",\n  undef_name,\n  "c");', 3), ('Type', 'let z = text::concat(\n  true);', 2), ('Import', 'import nosuchmodule;', 1),
               ('MultipleAssign', 'let b = 1;', 1), ('Runtime', 'let z = eth::frame("|00|",\n "|00|");', 2), ('Name', 'f.nosuch(\n1,\n2\n);', 4), ('Type', 'f.open(\n\n 1);', 3), ('Name', 'undef;', 1)]
    TRAIL = ['', '\n', '# vim: set ft=resynth :\n', '\n\n// end\n# really\n', '   \n\t\n', 'let after = 1;\n', 'let after = 1;\n# remark\n\n', '"dangling" # never closed statement\n']
    pre4 = 'import text;\nimport eth;\nimport ipv4;\nlet b = 0;\nlet f = ipv4::tcp::flow(1.2.3.4:5, 6.7.8.9:80);\n# remark\n\n'
    first = pre4.count('\n') + 1
    for cls, stmt, nl in FAILING:
        for tr in TRAIL:
            for nonl in (False, True):
                src = (pre4 + stmt + '\n' + tr)
                if nonl: src = src.rstrip('\n')
                src = src.encode()
                impl, model = progdiff.run_both(c, src)
                judge_cli(c, src, impl, model, 'error-line')
                o = impl['outcome']
                if o[0] == 'failure' and o[1] == cls and not (first <= o[2][0] < first + nl):
                    c.violation('total:position-outside-statement', 'a %s error raised by the statement on lines %d-%d is reported at line %d' % (cls, first, first + nl - 1, o[2][0]), dict(src=src.decode(), src_hex=src.hex()))
        c.case(('error-line', cls, stmt), dict(kind='error-line', cls=cls, stmt=stmt))
    # (3b) values that a computation maps to a special result: UDP datagrams whose checksum computes to zero (transmitted as all
    #      ones, RFC 768) on every checksumming path, in both directions, framed and raw, alone and inside a tunnel
    from .C03 import zero_fold_payload
    for i in range(10 if c.quick else 150):
        r = c.rng.fork('zfold%d' % i)
        cl, sv = (r.below(2 ** 32), r.below(65536)), (r.below(2 ** 32), r.below(65536))
        pre = r.bytes(2 * r.below(12))
        from ..netscen import ip as ipf
        for who, (a, b) in (('client', (cl, sv)), ('server', (sv, cl))):
            pay = zero_fold_payload(a[0], b[0], a[1], b[1], pre)
            for call in ('u.%s_dgram("|%s|")', 'u.%s_dgram(csum: true, "|%s|")', 'eth::frame("|000000000001|", "|000000000002|", u.%s_raw_dgram("|%s|"))', 'v.encap(u.%s_dgram("|%s|"))'):
                src = ('import ipv4;\nimport eth;\nimport vxlan;\nlet u = ipv4::udp::flow(%s:%d, %s:%d%s);\nlet v = vxlan::session(9.9.9.9:9, 8.8.8.8:4789);\n%s;\n'
                       % (ipf(cl[0]), cl[1], ipf(sv[0]), sv[1], ', raw: true' if i % 2 else '', call % (who, pay.hex()))).encode()
                impl, model = progdiff.run_both(c, src)
                judge_cli(c, src, impl, model, 'zero-checksum')
        c.case(('zfold', i), dict(kind='zero-checksum', payload=pay.hex()) if i % 5 == 0 else None)
    # (3c) sums whose first fold carries again (the end-around carry of the Internet checksum has to be applied twice): IPv4 headers
    #      with the identification tuned so that the low half of the sum is 0xffff, and transport payloads tuned the same way
    for i in range(16 if c.quick else 200):
        r = c.rng.fork('fold%d' % i)
        srcip, dstip = 0xffff0000 | r.below(65536), 0xfffe0000 | r.below(65536)
        ttl, proto, n = r.choice([255, 254, 200]), r.choice([255, 253, 17]), 2 * r.below(20)
        words = [0x4500, 20 + n, 0x4000, (ttl << 8) | proto, srcip >> 16, srcip & 0xffff, dstip >> 16, dstip & 0xffff]
        idv = (0xffff - sum(words)) & 0xffff
        pay = r.bytes(n)
        from ..netscen import ip as ipf
        src = ('import ipv4;\nipv4::datagram(%s, %s, id: %d, ttl: %d, proto: %d, df: true, "|%s|");\n' % (ipf(srcip), ipf(dstip), idv, ttl, proto, pay.hex())).encode()
        impl, model = progdiff.run_both(c, src)
        judge_cli(c, src, impl, model, 'double-carry')
        # the same for the transport sum: two trailing bytes chosen so that pseudo-header + header + payload has low half 0xffff
        a, b_ = 0xfff00000 | r.below(2 ** 20), 0xffe00000 | r.below(2 ** 20)
        sp, dp = 60000 + r.below(5000), 60000 + r.below(5000)
        pre = b'\xff\xff' * (4 + r.below(20))
        ulen = 8 + len(pre) + 2
        ws = [a >> 16, a & 0xffff, b_ >> 16, b_ & 0xffff, 17, ulen, sp, dp, ulen] + [0xffff] * (len(pre) // 2)
        w = (0xffff - sum(ws)) & 0xffff
        src = ('import ipv4;\nlet u = ipv4::udp::flow(%s:%d, %s:%d);\nu.client_dgram("|%s|");\n' % (ipf(a), sp, ipf(b_), dp, (pre + w.to_bytes(2, 'big')).hex())).encode()
        impl, model = progdiff.run_both(c, src)
        judge_cli(c, src, impl, model, 'double-carry')
        c.case(('fold', i), dict(kind='double-carry', id=idv) if i % 4 == 0 else None)
    # (4) nesting depth (the native stack is outside the model)
    for depth in ([50, 500, 3000, 20000] if c.quick else [50, 500, 1000, 3000, 8000, 20000, 60000]):
        for shape in ('call', 'slash', 'args'):
            if shape == 'call': src = 'import text;\nlet x = ' + 'text::concat(' * depth + '"a"' + ')' * depth + ';\n'
            elif shape == 'slash': src = 'let x = ' + '1/' * depth + '1;\n'
            else: src = 'import text;\nlet x = text::concat(' + '"a", ' * depth + '"b");\n'
            res = core.run_cli(src.encode())
            o = core.classify_cli(res)
            if o[0] == 'panic' or res['rc'] not in (0, 1):
                sig = 'total:stack-overflow:%s' % shape if ('overflow' in res['stderr'] or res['rc'] < 0 or res['rc'] == 134) else 'total:panic:nesting'
                c.violation(sig, 'nesting depth %d (%s) kills the process: rc=%s %s' % (depth, shape, res['rc'], res['stderr'][-100:]), dict(depth=depth, shape=shape))
            elif depth <= 500:
                m = core.parse_model_prog(c.model.ask(core.model_prog_req(src.encode())))
                if not progdiff.same_outcome(o, m['outcome']): c.disagree('nesting', dict(depth=depth, shape=shape), str(o), str(m['outcome']))
            c.case(('depth', depth, shape), dict(kind='nesting', depth=depth, shape=shape, outcome=str(o)))
    c.assumptions += ['the native stack is not part of the model: nesting depth is probed on the real binary only',
                      'hangs are detected by a 120 s timeout per run']


def replay(c, data):
    d = data.get('replay') or data['disagreements'][0]['request']
    if 'req' in d:
        hi = c.harness.ask(d['req']); mo = c.model.ask(d['req'])
        if hi != mo: c.disagree('replay', d, hi[:300], mo[:300])
    else:
        src = bytes.fromhex(d['src_hex']) if 'src_hex' in d else d['src'].encode()
        impl, model = progdiff.run_both(c, src)
        judge_cli(c, src, impl, model, 'replay')
