"""C17 — literals denote exactly what is written, or are rejected."""
import re
from .. import core, progdiff
from ..core import sh_hex

RULE = ("integer spellings (decimal/hex, leading zeros, 0, 2^16-1, 2^16, 2^32, 2^64-1, 2^64 and beyond, up to 40 digits, negative), dotted "
        "quads with every octet class (0, 9, 10, 99, 100, 199, 200, 249, 250, 255, 256, 300, zero-padded), booleans, ports 0..65535 and "
        "beyond in both socket spellings (read back from UDP headers of the real pcap), hex-section spellings (odd digit counts, non-hex "
        "characters, every separator). The value the REAL parser attaches to the literal (canonical tree) is compared with the value "
        "computed independently from the spelling; rejections must be parse/type errors at the literal. Non-trivial = any literal; "
        "distinct = the spelling")


def tree(c, src):
    req = 'parse ' + sh_hex(src.encode())
    hi = c.harness.ask(req); mo = c.model.ask(req)
    if hi != mo: c.disagree('literal', dict(src=src), hi[:200], mo[:200])
    return hi


def expect_value(c, lit, want):
    """want: 'u64:N' | 'ip4:N' | 'bool:true' | 'sock4:ip:port' | None (must be rejected at the literal)"""
    src = 'let x = %s;' % lit
    hi = tree(c, src)
    rep = dict(src=src)
    if want is None:
        if not hi.startswith('parseerr'):
            c.violation('lit:accepted', 'literal %s has no value but was accepted: %s' % (lit, hi[:120]), rep)
    else:
        m = re.search(r'\(lit \d+:\d+ ([^)]+)\)', hi)
        if not hi.startswith('ok') or not m:
            c.violation('lit:rejected', 'literal %s denotes %s but was rejected: %s' % (lit, want, hi[:120]), rep)
        elif m.group(1) != want:
            c.violation('lit:value', 'literal %s denotes %s but the parser built %s' % (lit, want, m.group(1)), rep)
    c.traces_validated += 1
    c.case(lit, dict(lit=lit, want=want, impl=hi[:100]) if c.evaluations % 60 == 0 else None)


def campaign(c):
    c.rule = RULE
    M = 2 ** 64
    ints = [0, 1, 9, 10, 255, 256, 65535, 65536, 2 ** 32 - 1, 2 ** 32, 2 ** 63, M - 1, M, M + 1, 10 ** 20, 10 ** 39]
    for i in range(60 if c.quick else 2000):
        r = c.rng.fork('int%d' % i); ints.append(r.below(2 ** r.choice([8, 16, 32, 63, 64, 65, 70])))
    for v in ints:
        for z in ('', '0', '000', '0' * 17, '0' * 40):
            expect_value(c, z + str(v), 'u64:%d' % v if v < M else None)
            expect_value(c, '0x' + z + '%x' % v, 'u64:%d' % v if v < M else None)
            expect_value(c, '0x' + z + '%X' % v, 'u64:%d' % v if v < M else None)
        expect_value(c, '-%d' % v, None)
    for lit, want in [('true', 'bool:true'), ('false', 'bool:false')]:
        expect_value(c, lit, want)
    # quads
    octs = ['0', '9', '10', '99', '100', '199', '200', '249', '250', '255']
    bad_octs = ['256', '260', '300', '999', '00', '01', '001', '010', '099']
    import itertools
    good = list(itertools.product(octs, repeat=4))
    step = 97 if c.quick else 7
    for q in good[::step]:
        n = sum(int(x) << (8 * (3 - j)) for j, x in enumerate(q))
        expect_value(c, '.'.join(q), 'ip4:%d' % n)
    for pos in range(4):
        for b in bad_octs:
            q = ['1', '2', '3', '4']; q[pos] = b
            lit = '.'.join(q)
            # lexically a quad with a bad octet may split into several tokens; either way the program must be rejected
            hi = tree(c, 'let x = %s;' % lit)
            if hi.startswith('ok') and '(lit' in hi and not re.search(r'ip4:', hi) is None:
                m = re.search(r'ip4:(\d+)', hi)
                c.violation('lit:quad-accepted', 'quad %s with an out-of-range or zero-padded octet was accepted as %s' % (lit, m.group(0)), dict(src=lit))
            c.case(lit, None)
    # sockets: both spellings, read back from the wire
    ports = [0, 1, 53, 65534, 65535, 65536, 65537, 70000, 131072, 2 ** 32, M - 1] + ([c.rng.fork('p%d' % i).below(70000) for i in range(40 if c.quick else 1500)])
    for p in ports:
        for sp, cls in ((':', 'Parse'), ('/', 'Type'), (' : ', 'Parse'), (' / ', 'Type')):
            src = ('import ipv4;\nipv4::udp::unicast(10.0.0.1%s%d, 10.0.0.2%s%d, "x");\n' % (sp, p, sp, (p * 7 + 1) % 65536)).encode()
            impl, model = progdiff.run_both(c, src)
            progdiff.compare(c, src, impl, model, 'socket', project=lambda f: f[34:38], times=False)
            rep = dict(src=src.decode())
            if p <= 65535:
                ok = impl['outcome'][0] == 'success'
                if ok:
                    f = progdiff.pcap_records(impl['file'])[0][1]
                    ok = int.from_bytes(f[34:36], 'big') == p and int.from_bytes(f[36:38], 'big') == (p * 7 + 1) % 65536 and f[26:30] == bytes([10, 0, 0, 1])
                if not ok: c.violation('lit:port-value', 'socket literal with port %d (spelling %r) does not produce that port on the wire' % (p, sp), rep)
            else:
                if not (impl['outcome'][0] == 'failure' and impl['outcome'][1] == cls):
                    c.violation('lit:port-accepted', 'port %d above 65535 (spelling %r) was not rejected: %s' % (p, sp, impl['outcome'],), rep)
            c.case(('port', p, sp), dict(kind='port', p=p, sp=sp) if c.evaluations % 50 == 0 else None)
    # negative ports: `-N` is lexed as one integer token; it is not a port, whatever it is congruent to
    for neg in ['-0', '-1', '-80', '-65456', '-65535', '-65536', '-00']:
        for sp, cls in ((':', 'Parse'), ('/', 'Type')):
            src = ('import ipv4;\nipv4::udp::unicast(10.0.0.1%s1000, 10.0.0.2%s%s, "x");\n' % (sp, sp, neg)).encode()
            impl, model = progdiff.run_both(c, src)
            progdiff.compare(c, src, impl, model, 'socket-negative')
            if impl['outcome'][0] != 'failure':
                c.violation('lit:port-accepted', 'negative port %s (spelling %r) was not rejected: %s' % (neg, sp, impl['outcome'],), dict(src=src.decode()))
            c.case(('negport', neg, sp), dict(kind='negative-port', p=neg, sp=sp))
    # hex sections
    seps = [' ', ':', '.', '_', '-', "'", '`', '\t']
    for i in range(150 if c.quick else 4000):
        r = c.rng.fork('hx%d' % i)
        bs = r.bytes(r.below(6))
        digs = bs.hex()
        k = r.below(4)
        body = ''.join(ch + (r.choice(seps) if r.chance(1, 3) else '') for ch in digs)
        if k == 0: lit, want = '"|%s|"' % body, 'str:' + sh_hex(bs)
        elif k == 1: lit, want = '"|%s%s|"' % (body, r.choice('0123456789abcdefABCDEF')), None          # odd digit count
        elif k == 2: lit, want = '"|%s%s%s|"' % (body, r.choice('gGxz!@,;'), body), None             # non-hex character
        else: lit, want = '"a|%s|b"' % body, 'str:' + sh_hex(b'a' + bs + b'b')
        expect_value(c, lit, want)
    # string literals with SEVERAL sections: an odd or ill-formed closed section anywhere must reject the whole literal
    def pydecode(t):
        """reference decoder written from the property text: text bytes, |..| sections of hex digit pairs, fillers ignored"""
        out, i, hexm, nib = bytearray(), 0, False, []
        for ch in t:
            if not hexm:
                if ch == '|': hexm, nib = True, []
                else: out += ch.encode('utf-8')
            else:
                if ch.isspace() or ch in ":._-'`": continue
                if ch == '|':
                    if len(nib) % 2: return None
                    hexm = False; continue
                if ch not in '0123456789abcdefABCDEF': return None
                nib.append(ch)
                if len(nib) % 2 == 0: out.append(int(nib[-2] + nib[-1], 16))
        return bytes(out)
    import itertools
    ALPHA = ['a', '|', '0', 'f', ' ', 'g', ':']
    L = 6 if c.quick else 8
    for ln in range(0, L + 1):
        for t in itertools.product(ALPHA, repeat=ln):
            txt = ''.join(t)
            if txt.count('|') < 2 and ln > 4: continue
            want = pydecode(txt)
            expect_value(c, '"%s"' % txt, ('str:' + sh_hex(want)) if want is not None else None)
    # non-ASCII characters inside and outside hex sections: every code point class whose LOW BYTE or NFKC folding is a hex digit,
    # a separator or the pipe (U+01xx 'İıŁłšŢ', CJK U+4E30, fullwidth digits/letters/pipe, Arabic-Indic digits, NBSP, ...)
    odd = ['İ', 'ı', 'Ł', 'ł', 'š', 'Ţ', '丰', '丱', '４', 'Ａ', 'ｆ', '｜', '٣', '\u00a0', '\u2007', 'é', 'ſ', 'µ', 'Å', '¼', '\u017c', '\u0230', '\u0141\u0131']
    for ch in odd:
        for tmpl in ('"|%s1|"', '"|4%s|"', '"x|%s%s|y"', '"|%s|"', '"%s|00|"', '"|00|%s"', '"|0%s0|"', '"|00 %s 11|"', '"%s"'):
            txt = (tmpl % ((ch,) * tmpl.count('%s')))[1:-1]
            want = pydecode(txt)
            expect_value(c, '"%s"' % txt, ('str:' + sh_hex(want)) if want is not None else None)
    # every printable ASCII character in the place of a hex digit (the digit count stays even, so only the character class
    # decides): signs, radix prefixes, brackets ... none of them is a digit or a filler unless the rules say so
    for code in range(0x20, 0x7f):
        ch = chr(code)
        if ch in '"\\': continue
        for tmpl in ('|%s4|', '|4%s|', '|%s4 %s1|', '|41 %s2 43|', '|%s%s|', 'a|%s4|', '|%s4|b', '|4%s|4%s|', '|%s|', '|0%s0|', '|0 %s 0|'):
            txt = tmpl % ((ch,) * tmpl.count('%s'))
            want = pydecode(txt)
            expect_value(c, '"%s"' % txt, ('str:' + sh_hex(want)) if want is not None else None)
    for i in range(300 if c.quick else 6000):
        r = c.rng.fork('ms%d' % i)
        parts = []
        for _ in range(1 + r.below(4)):
            k = r.below(4)
            if k == 0: parts.append(''.join(r.choice('GETxyz /09') for _ in range(r.below(5))))
            elif k == 1: parts.append('|%s|' % r.bytes(r.below(4)).hex())
            elif k == 2: parts.append('|%s%s|' % (r.bytes(r.below(3)).hex(), r.choice('0123456789abcdef')))
            else: parts.append('|%s|' % ' '.join('%02X' % b for b in r.bytes(r.below(4))))
        txt = ''.join(parts)
        want = pydecode(txt)
        expect_value(c, '"%s"' % txt, ('str:' + sh_hex(want)) if want is not None else None)
    c.assumptions += ['expected values are computed from the spelling by the campaign (Python big integers), independently of model and implementation']


def replay(c, data):
    d = data.get('replay') or data['disagreements'][0]['request']
    tree(c, d['src'])
