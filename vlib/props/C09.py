"""C09 — the parser accepts exactly the grammar and builds the tree it prescribes."""
import itertools
from .. import core
from ..core import sh_hex

PROOF_MODULES = ['Resynth.Props.C09', 'Resynth.Props.C09Eof']

RULE = ("token-kind sequences over the 17 parser-visible kinds with representative texts: exhaustive up to length 3 (quick) / "
        "5 (thorough) after the statement starters, sampled beyond; grammar-directed sentences (nested calls, named/"
        "trailing-comma args, module paths, member refs, socket literals, right-nested '/') and their mutations "
        "(delete/duplicate/swap/insert token, out-of-range literals); tokens split across lines at random. For each "
        "sequence the real Parser::feed (through the real lexer), the LR model and the recursive-descent Spec.parse "
        "(run on the real lexer's tokens) must agree on accept/reject, error token index and canonical trees. "
        "Non-trivial = at least 2 tokens; distinct = token text sequence")

TEXT = {'lparen': ['('], 'rparen': [')'], 'dot': ['.'], 'dcolon': ['::'], 'colon': [':'], 'semi': [';'], 'equals': ['='],
        'comma': [','], 'slash': ['/'], 'import': ['import'], 'let': ['let'], 'bool': ['true', 'false'], 'ident': ['a', 'b', 'f', 'x_1'],
        'ipv4': ['1.2.3.4', '255.0.0.1'], 'str': ['"s"', '"|00 ff|"', '""', '"5"', '"true"', '"0x1f"', '"1.2.3.4"', '"65535"', '"a"', '"import"'], 'hex': ['0x1f', '0x0', '0x00000000000000001', '0x0000ffffffffffffffff'], 'int': ['5', '0', '65535', '000000000000000000000000007', '-0', '-7']}
BADLIT = ['99999999999999999999', '-5', '-0', '-00', '-18446744073709551616', '01.2.3.4', '256.1.1.1', '"|f|"', '"|zz|"', '0xfffffffffffffffff', '65536', '18446744073709551615']
KINDS = list(TEXT)


def join(tokens, r=None):
    """source text: tokens separated by a space or (randomly) a newline; adjacent strings never merge by accident
    because the enumerations never place two strings side by side unless intended"""
    out = []
    for i, t in enumerate(tokens):
        out.append(t)
        out.append('\n' if (r is not None and r.chance(1, 5)) else ' ')
    return ''.join(out)


def check(c, tokens, tag, r=None):
    src = join(tokens, r).encode()
    req = 'parse ' + sh_hex(src)
    hi = c.harness.ask(req)
    mo = c.model.ask(req)
    if hi != mo:
        c.disagree('parse', dict(src=src.decode()), hi[:300], mo[:300])
    # Spec.parse on the REAL lexer's tokens
    lines = src.decode().split('\n')
    if lines and lines[-1] == '': lines = lines[:-1]
    lx = c.harness.ask('lexlines ' + ' '.join(sh_hex(l.encode()) for l in lines))
    if 'err' not in lx.split(' | ')[-1][:4]:
        toks = []
        for seg in lx.split(' | '):
            parts = seg.split(' ')
            if parts[0] not in ('ok', 'fin'): continue    # 'fin': the literal Lexer::finish hands over at end of input
            toks += [p for p in parts[1:] if ':' in p and not p.startswith('end=')]
        sp = c.model.ask('oracle parse ' + ' '.join(toks)) if toks else c.model.ask('oracle parse')
        # compare impl with spec: accept/reject, index, trees
        ip = hi.split(' ')
        spp = sp.split(' ')
        ok = True
        if ip[0] == 'ok':
            ok = sp == hi
        elif ip[0] == 'parseerr':
            ok = spp[0] == 'parseerr' and spp[1] == ip[1]
        elif ip[0] == 'panic':
            ok = False
        if not ok:
            sig = 'parse:' + ('accepts-nonsentence' if ip[0] == 'ok' and spp[0] != 'ok' else 'rejects-sentence' if ip[0] != 'ok' and spp[0] == 'ok'
                              else 'panic' if ip[0] == 'panic' else 'error-index' if ip[0] == spp[0] == 'parseerr' else 'tree')
            c.violation(sig, 'parser and grammar disagree: impl=%s spec=%s' % (hi[:200], sp[:200]), dict(src=src.decode()))
        c.traces_validated += 1
    c.count('impl:' + hi.split(' ')[0])
    c.case(tuple(tokens) if len(tokens) >= 2 else None, dict(kind=tag, src=src.decode()[:200], impl=hi[:160]) if len(tokens) >= 2 and c.evaluations % 50 == 0 else None)


def gen_expr(r, d=0):
    k = r.below(9 if d < 3 else 5)
    if k == 0: return [r.choice(TEXT['str'])]
    if k == 1: return [r.choice(TEXT['int'] + TEXT['hex'] + TEXT['bool'])]
    if k == 2: return [r.choice(TEXT['ipv4'])] + ([':', r.choice(['80', '0', '65535', '65536', '99999', '4294967296', '0x50', 'true'])] if r.chance(1, 2) else [])
    if k in (3, 4): return gen_ref(r)
    if k in (5, 6):
        out = gen_ref(r) + ['(']
        n = r.below(4)
        for i in range(n):
            if r.chance(1, 3): out += [r.choice(TEXT['ident']), ':']
            out += gen_expr(r, d + 1)
            if i + 1 < n or r.chance(1, 4): out.append(',')
        return out + [')']
    return gen_expr(r, d + 1) + ['/'] + gen_expr(r, d + 1)


def gen_ref(r):
    out = [r.choice(TEXT['ident'])]
    for _ in range(r.below(3)): out += ['::', r.choice(TEXT['ident'])]
    for _ in range(r.below(3)): out += ['.', r.choice(TEXT['ident'])]
    return out


def gen_stmt(r):
    k = r.below(4)
    if k == 0: return ['import', r.choice(TEXT['ident']), ';']
    if k == 1: return ['let', r.choice(TEXT['ident']), '='] + gen_expr(r) + [';']
    e = gen_ref(r)
    if r.chance(2, 3):
        e += ['(']
        n = r.below(4)
        for i in range(n):
            if r.chance(1, 3): e += [r.choice(TEXT['ident']), ':']
            e += gen_expr(r, 1)
            if i + 1 < n or r.chance(1, 4): e.append(',')
        e += [')']
    if r.chance(1, 4): e += ['/'] + gen_expr(r, 2)
    return e + [';']


def mutate(r, toks):
    t = list(toks)
    if not t: return t
    k = r.below(6); i = r.below(len(t))
    allt = [x for v in TEXT.values() for x in v]
    if k == 0: del t[i]
    elif k == 1: t.insert(i, t[i])
    elif k == 2 and len(t) > 1:
        j = r.below(len(t)); t[i], t[j] = t[j], t[i]
    elif k == 3: t.insert(i, r.choice(allt))
    elif k == 4: t[i] = r.choice(allt)
    else: t[i] = r.choice(BADLIT)
    # two adjacent string tokens would merge lexically: keep them apart
    out = []
    for x in t:
        if out and out[-1].startswith('"') and x.startswith('"'): out.append(',')
        out.append(x)
    return out


def campaign(c):
    c.rule = RULE
    rep = {k: v[0] for k, v in TEXT.items()}
    L = 3 if c.quick else 5
    n = 0
    for ln in range(0, L + 1):
        for seq in itertools.product(KINDS, repeat=ln):
            if any(a == 'str' and b == 'str' for a, b in zip(seq, seq[1:])): continue
            if ln >= 4 and seq[0] not in ('import', 'let', 'ident'): continue   # everything else dies at token 0 (covered at length <= 3)
            check(c, [rep[k] for k in seq], 'exh%d' % ln); n += 1
    c.extra['exhaustive_space'] = 'all kind sequences of length <= %d (from length 4 only those starting a statement)' % L
    m = 400 if c.quick else 20000
    for i in range(m):
        r = c.rng.fork('g%d' % i)
        toks = []
        for _ in range(1 + r.below(3)): toks += gen_stmt(r)
        check(c, toks, 'sentence', r)
        mt = mutate(r, toks)
        if r.chance(1, 3): mt = mutate(r, mt)
        check(c, mt, 'mutant', r)
    for port in ['0', '65535', '65536', '65537', '131072', '18446744073709551615', '18446744073709551616', '-1', '-0', '-65456', '-65536', '00080', '0x10']:
        check(c, ['let', 'a', '=', '1.2.3.4', ':', port, ';'], 'port')
        check(c, ['f', '(', '1.2.3.4', ':', port, ')', ';'], 'port')
    # literals of different kinds with the same spelling inside and outside quotes, in both orders, near and far apart
    for a, b in [('5', '"5"'), ('true', '"true"'), ('0x1f', '"0x1f"'), ('1.2.3.4', '"1.2.3.4"'), ('65535', '"65535"'), ('a', '"a"'), ('5', '0x5'), ('1.2.3.4', '1.2.3.4')]:
        for x, y in ((a, b), (b, a)):
            check(c, ['f', '(', x, ',', y, ')', ';'], 'same-spelling')
            check(c, ['let', 'p', '=', x, ';', 'let', 'q', '=', y, ';', 'f', '(', 'p', ',', 'q', ',', x, ',', y, ')', ';'], 'same-spelling')
            check(c, ['let', 'p', '=', x, ';', 'let', 'q', '=', '1.2.3.4', ':', (y if not y.startswith('"') else '80'), ';', 'g', '(', 'k', ':', y, ')', ';'], 'same-spelling')
    # every pair of operand kinds on the two sides of '/', in every expression context (statement, let, positional and named
    # argument, nested operand): the tree is the operator node over the two operands as written, whatever their kinds
    OPND = [['1.2.3.4'], ['255.0.0.1'], ['80'], ['0'], ['65535'], ['65536'], ['0x35'], ['0x0000ffffffffffffffff'], ['true'], ['"s"'], ['a'], ['m', '::', 'c'], ['f', '(', ')'], ['1.2.3.4', ':', '80'], ['-7']]
    for a in OPND:
        for b in OPND:
            e = a + ['/'] + b
            for ctx in (['let', 's', '='] + e + [';'], ['f', '('] + e + [')', ';'], ['f', '(', 'k', ':'] + e + [',', 'j', ':'] + e + [')', ';'],
                        ['x', '/'] + e + [';'], ['let', 's', '='] + e + ['/', '9', ';']):
                check(c, ctx, 'slash-operands')
    # a ':' after something that is not an argument name or an address: every literal kind x what follows the colon x context
    for lit in (['12'], ['0x10'], ['true'], ['"a"'], ['-7'], ['1.2.3.4', ':', '80'], ['f', '(', ')'], ['m', '::', 'c']):
        for after in (['30'], ['65535'], ['65536'], ['0x1f'], ['x'], ['"b"'], ['1.2.3.4'], [], [':', '1']):
            e = lit + [':'] + after
            for ctx in (['let', 'a', '='] + e + [';'], ['f', '('] + e + [')', ';'], ['f', '(', 'k', ':'] + e + [')', ';'], ['a', '/'] + e + [';'], e + [';'], ['let', 'a', '='] + e):
                check(c, ctx, 'literal-colon')
    # scale: each recursive construct of the grammar repeated n times ("nested to any depth"): '/' chains (all pending operators
    # are reduced on the one token that follows the chain), nested calls, argument lists, module paths, member chains
    for n in ([1, 2, 5, 16, 17, 18, 19, 20, 39, 40, 41, 64, 150] if c.quick else list(range(1, 70)) + [100, 150, 300, 1000]):
        for opnd in (['1'], ['a'], ['f', '(', ')'], ['"s"']):
            chain = list(opnd)
            for _ in range(n): chain += ['/'] + opnd
            check(c, ['let', 'x', '='] + chain + [';'], 'scale-slash')
            check(c, ['f', '(', 'k', ':'] + chain + [',', '2', ')', ';'], 'scale-slash')
        check(c, ['f', '('] * n + ['1'] + [')'] * n + [';'], 'scale-nest')
        check(c, ['f', '('] * n + [')'] * n + [';'], 'scale-nest')
        check(c, ['f', '('] + ['1', ','] * n + [')', ';'], 'scale-args')
        check(c, ['f', '('] + ['k', ':', '1', ','] * (n - 1) + ['k', ':', '1', ')', ';'], 'scale-args')
        check(c, ['a'] + ['::', 'b'] * n + [';'], 'scale-path')
        check(c, ['a'] + ['.', 'b'] * n + ['(', ')', ';'], 'scale-member')
        check(c, ['a', '::', 'b'] + ['.', 'c'] * n + ['/'] + ['a'] + ['::', 'b'] * n + [';'], 'scale-mixed')
        check(c, (['import', 'a', ';'] * n) + ['let', 'x', '=', '1', ';'] * n, 'scale-stmts')
    # examples shipped with the repository that exercise the grammar
    for f in ('calls', 'refs', 'assignments'):
        src = open(core.REPO + '/examples/%s.rsyn' % f, 'rb').read()
        req = 'parse ' + sh_hex(src)
        hi, mo = c.harness.ask(req), c.model.ask(req)
        if hi != mo: c.disagree('parse-example', dict(src=src.decode()), hi[:300], mo[:300])
        c.case(('example', f), dict(kind='example', file=f, impl=hi[:200]))
    # direct probe: a string literal that is the last token of the file never reaches the parser
    res = core.run_cli(b'import ipv4;\n"trailing junk"\n')
    if core.classify_cli(res)[0] == 'success':
        c.violation('parse:trailing-string', 'a string literal at the very end of a file is never handed to the parser: `import ipv4; "junk"` is accepted', dict(src='import ipv4;\n"trailing junk"\n'))
    c.assumptions += ['token sequences reach the real parser through the real lexer (Token has no public constructor); representative texts per kind']


def replay(c, data):
    d = data.get('replay') or data['disagreements'][0]['request']
    check(c, d['src'].split(), 'replay')
