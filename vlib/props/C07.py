"""C07 — IP fragments of a payload always reassemble to the original datagram."""
from .. import core, progdiff
from ..core import sh_hex

RULE = ("fragmentation contexts x request lists: exhaustive (n, off, len) grid for payload lengths n <= 24 (quick) / 40 "
        "(thorough) with every (off,len) addressing bytes inside the payload, random large payloads up to the size limit, "
        "random covering request sets in random order with overlaps/duplicates/zero-length/over-long requests, raw and "
        "framed, id/df/evil/ttl/proto options. Each fragment of the REAL pcap is decoded by Spec.decodeFrag and compared "
        "with the requested slice/fields; covering sets are reassembled by Spec.reassemble. Non-trivial = at least one "
        "fragment emitted; distinct = (n, requests, raw, options)")


def parse_kv(r):
    return dict(x.split('=', 1) for x in r.split(' ')[1:])


def payload_expr(n, r):
    """expression producing n bytes with distinguishable content"""
    data = bytes((i * 7 + 3) % 251 for i in range(n))
    if n <= 600:
        return '"|%s|"' % data.hex() if n else '""', data
    # large: build by concatenation of let-bound blocks
    return None, data


def program(n, reqs, raw, opts, tail_datagram=True, raws=None):
    lines = ['import ipv4;', 'import text;']
    data = bytes((i * 7 + 3) % 251 for i in range(n))
    if n <= 600:
        pe = '"|%s|"' % data.hex() if n else '""'
        # the ways a script hands the payload over: inline, one let-bound value (also used elsewhere afterwards), several
        # arguments, a let-bound value produced by a call
        form = (n + len(reqs) + (1 if raw else 0)) % 5
        if n and form == 1: lines.append('let pay = %s;' % pe); pe = 'pay'
        elif n and form == 2: lines.append('let pay = text::concat(%s);' % pe); pe = 'pay'
        elif n > 1 and form == 3: pe = '"|%s|", "|%s|"' % (data[:n // 2].hex(), data[n // 2:].hex())
        elif n > 1 and form == 4: lines.append('let pa = "|%s|";' % data[:n // 2].hex()); lines.append('let pb = "|%s|";' % data[n // 2:].hex()); pe = 'pa, pb'
    else:
        blk = 500
        names = []
        for i in range(0, n, blk):
            lines.append('let b%d = "|%s|";' % (i // blk, data[i:i + blk].hex())); names.append('b%d' % (i // blk))
        # concat in groups to keep lines moderate
        pe = 'text::concat(%s)' % ', '.join(names)
    o = []
    for k in ('id', 'ttl', 'proto'):
        if k in opts: o.append('%s: %d' % (k, opts[k]))
    for k in ('df', 'evil'):
        if k in opts: o.append('%s: %s' % (k, opts.get(k + '_spelling') or ('true' if opts[k] else 'false')))
    lines.append('let fr = ipv4::frag(10.1.2.3, 10.200.100.50, %s%s);' % (''.join(x + ', ' for x in o), pe))
    for j, (kind, off, ln) in enumerate(reqs):
        rj = raws[j] if raws is not None else raw          # raw mode is a property of the CALL, not of the context
        rw = ', raw: true' if rj else (', raw: false' if raws is not None and j % 2 else '')
        if kind == 'f': lines.append('fr.fragment(%d, %d%s);' % (off, ln, rw))
        elif kind == 't': lines.append('fr.tail(%d%s);' % (off, rw))
        else: lines.append('fr.datagram(%s);' % rw[2:])
    return ('\n'.join(lines) + '\n').encode(), data


def expected(data, kind, off, ln):
    n = len(data)
    if kind == 'd': return 0, data, False
    if kind == 't': ln = n % 65536
    e = min(8 * (off + ln), n); s = min(8 * off, e)
    return off, data[s:e], e < n


def check(c, n, reqs, raw, opts, tag, raws=None):
    src, data = program(n, reqs, raw, opts, raws=raws)
    impl, model = progdiff.run_both(c, src)
    unframe = (lambda f: f if f[:1] == b'\x45' else f[14:]) if raws is not None else ((lambda f: f) if raw else (lambda f: f[14:]))
    progdiff.compare(c, src, impl, model, 'frag', project=unframe, times=False)
    key = None
    if impl['outcome'][0] == 'panic':
        c.violation('frag:panic', 'implementation panicked: %s' % (impl['outcome'][1],), dict(src=src.decode()[:3000]))
    elif impl['outcome'][0] == 'success' and impl['file'] is not None:
        recs = [r[1] if raw else r[1][14:] for r in progdiff.pcap_records(impl['file'])]
        if raws is not None:
            recs = [r[1] if rj else r[1][14:] for r, rj in zip(progdiff.pcap_records(impl['file']), raws)]
            c.count('mixed-raw-contexts')
        if len(recs) != len(reqs):
            c.violation('frag:count', 'expected %d fragments, file has %d' % (len(reqs), len(recs)), dict(src=src.decode()[:3000]))
        inside = True
        for (kind, off, ln), d in zip(reqs, recs):
            r = c.model.ask('oracle frag ' + sh_hex(d))
            if not r.startswith('ok'):
                c.violation('frag:undecodable', 'Spec.decodeFrag rejects an emitted fragment', dict(src=src.decode()[:3000])); continue
            kv = parse_kv(r)
            eoff, edata, emf = expected(data, kind, off, ln)
            if kind == 'f' and 8 * off > n: inside = False
            want = dict(src=str(0x0a010203), dst=str(0x0ac86432), proto=str(opts.get('proto', 17)), id=str(opts.get('id', 0)),
                        ttl=str(opts.get('ttl', 64)), evil=str(bool(opts.get('evil'))).lower(), df=str(bool(opts.get('df'))).lower(),
                        mf=str(emf).lower(), off=str(eoff), data=sh_hex(edata))
            if kind == 'f' and 8 * off > n:
                want.pop('mf'); want.pop('data')   # outside the property's quantifier (C08 only demands no panic)
            bad = [k for k in want if kv.get(k) != want[k]]
            if bad:
                c.violation('frag:field:' + ','.join(bad), 'fragment %s(%d,%d) of a %d-byte payload has wrong %s' % (kind, off, ln, n, bad),
                            dict(src=src.decode()[:3000], got={k: kv.get(k) for k in bad}, want={k: want[k] for k in bad}))
        # coverage => reassembly (in emission order and reversed)
        cov = [False] * n
        for (kind, off, ln) in reqs:
            eoff, edata, _ = expected(data, kind, off, ln)
            for i in range(8 * eoff, 8 * eoff + len(edata)):
                if i < n: cov[i] = True
        if inside and ((n > 0 and all(cov)) or (n == 0 and any(k == 'd' for k, _, _ in reqs))) and 20 + n <= 65535:
            for order in ((recs, recs[::-1]) if n <= 8000 else (recs[::-1],)):
                r = c.model.ask('oracle reasm ' + ','.join(sh_hex(x) for x in order))
                if r != 'ok ' + sh_hex(data):
                    c.violation('frag:reassembly', 'a covering fragment set does not reassemble to the payload: %s' % r[:100], dict(src=src.decode()[:3000]))
            c.count('reassembled')
        c.traces_validated += 1
        if recs: key = (n, tuple(reqs), raw, tuple(sorted((k, str(v)) for k, v in opts.items())))
    c.count('requests', len(reqs))
    c.case(key, dict(kind=tag, n=n, reqs=reqs[:8], raw=raw, opts=opts) if key else None)


def campaign(c):
    c.rule = RULE
    nmax = 24 if c.quick else 40
    # exhaustive grid: each (n, off, len) with 8*off <= n, len in 0..ceil(n/8)+1, as a single-fragment program batched per n
    for n in range(0, nmax + 1):
        reqs = []
        for off in range(0, n // 8 + 1):
            for ln in range(0, (n + 7) // 8 + 2):
                reqs.append(('f', off, ln))
            reqs.append(('t', off, 0))
        reqs.append(('d', 0, 0))
        check(c, n, reqs, n % 2 == 1, dict(id=n * 257 % 65536) if n % 3 else {}, 'grid')
    c.extra['exhaustive_space'] = 'all (n, off, len) with n <= %d, 8*off <= n, len <= ceil(n/8)+1, plus tail(off) and datagram()' % nmax
    c.exhaustive = False
    for n in ([8192, 9004, 65515] if c.quick else [8191, 8192, 8193, 9004, 16384, 16385, 32768, 65515]):
        check(c, n, [('t', 0, 0), ('t', n // 16, 0), ('f', 0, n // 8 + 1), ('f', 1, 8192), ('f', 0, 65535), ('d', 0, 0)], False, dict(id=7), 'big')
    m = 60 if c.quick else 800
    for i in range(m):
        r = c.rng.fork('frag%d' % i)
        n = r.choice([0, 1, 7, 8, 9, 15, 16, 17, 64, 100, 1480, 1481, 4000, r.below(3000), r.below(65516)]) if r.chance(9, 10) else 65515
        if c.quick and n > 9000 and r.chance(9, 10): n = r.below(3000)
        blocks = (n + 7) // 8
        reqs = []
        # a covering set: random cut points, random overlaps, shuffled
        pos = 0
        while pos < blocks:
            ln = 1 + r.below(max(1, min(blocks, 1 + blocks // (1 + r.below(6)))))
            start = max(0, pos - (r.below(3) if r.chance(1, 3) else 0))
            reqs.append(('f', start, ln + (pos - start) + (r.below(4) if r.chance(1, 5) else 0)))
            pos += ln
        if r.chance(1, 3) and blocks: reqs.append(('t', r.below(blocks), 0))
        if r.chance(1, 4): reqs.append(('f', r.below(n // 8 + 1), 0))
        if r.chance(1, 4) and reqs: reqs.append(r.choice(reqs))
        if r.chance(1, 6): reqs.append(('d', 0, 0))
        if r.chance(1, 3): reqs.append(('f', r.below(n // 8 + 1), r.choice([8191, 8192, 8193, 16384, 32768, 65535, 8192 + r.below(57000)])))   # over-long requests
        if n == 0: reqs.append(('d', 0, 0))
        # shuffle
        for j in range(len(reqs) - 1, 0, -1):
            k = r.below(j + 1); reqs[j], reqs[k] = reqs[k], reqs[j]
        opts = {}
        if r.chance(1, 2): opts['id'] = r.choice([0, 1, 65535, r.below(65536), r.below(65536)])
        if r.chance(1, 3): opts['df'] = r.chance(3, 4)          # also an explicit `df: false`
        if r.chance(1, 4): opts['evil'] = r.chance(3, 4)
        if r.chance(1, 2): opts['ttl'] = r.choice([0, 1, 64, 255, r.below(256)])       # zero is a value, not "unset"
        if r.chance(1, 2): opts['proto'] = r.choice([0, 1, 6, 17, 47, 255, r.below(256)])
        if i % 4 == 1:
            # flag options given as numbers or typed constants: any non-zero integer is `true`, zero is `false` (C11's conversion rule)
            r5 = c.rng.fork('boolint%d' % i)
            for k in ('df', 'evil'):
                sp, val = r5.choice([('0', False), ('1', True), ('2', True), ('3', True), ('4', True), ('255', True), ('256', True), ('65536', True), ('0x8000', True),
                                     ('ipv4::proto::TCP', True), ('18446744073709551615', True), ('true', True), ('false', False)])
                opts[k] = val; opts[k + '_spelling'] = sp
        check(c, n, reqs[:40], r.chance(1, 3), {k: v for k, v in opts.items()}, 'rand')
        if i % 3 == 0:
            # the same context asked for framed and raw packets in turn (whole datagram, fragments, tails; repeated requests)
            r2 = c.rng.fork('fragmix%d' % i)
            rq = (reqs[:12] + [('d', 0, 0), ('d', 0, 0)] + reqs[:3])
            for j in range(len(rq) - 1, 0, -1):
                k = r2.below(j + 1); rq[j], rq[k] = rq[k], rq[j]
            check(c, min(n, 3000), [q for q in rq if q[0] == 'd' or 8 * q[1] <= min(n, 3000)], False, opts, 'mixed-raw', raws=[r2.chance(1, 2) for _ in rq])
    # several contexts in one program (identification omitted, zero, equal, different; same and different hosts), used in turn:
    # every packet carries the header of the context it was asked of
    for i in range(10 if c.quick else 150):
        r = c.rng.fork('ctxs%d' % i)
        ctxs = []
        lines = ['import ipv4;']
        for k in range(2 + r.below(3)):
            idv = r.choice([None, 0, 0, 1, 7, r.below(65536)])
            hosts = r.choice([(0x0a010203, 0x0ac86432), (0x0a010203, 0x0ac86432), (0x01010101 + k, 0x02020202)])
            data = bytes((j * 5 + k) % 251 for j in range(r.choice([8, 17, 40])))
            ttl = r.choice([None, 64, 9])
            lines.append('let c%d = ipv4::frag(%d.%d.%d.%d, %d.%d.%d.%d, %s%s"|%s|");' % ((k,) + tuple(hosts[0].to_bytes(4, 'big')) + tuple(hosts[1].to_bytes(4, 'big')) +
                         ('id: %d, ' % idv if idv is not None else '', 'ttl: %d, ' % ttl if ttl is not None else '', data.hex())))
            ctxs.append(dict(id=idv or 0, hosts=hosts, data=data, ttl=ttl or 64))
        want = []
        for _ in range(4 + r.below(6)):
            k = r.below(len(ctxs)); cx = ctxs[k]; n = len(cx['data'])
            kind = r.choice(['d', 'f', 't'])
            if kind == 'd': lines.append('c%d.datagram();' % k); want.append((cx, 0, cx['data'], False))
            elif kind == 't':
                off = r.below(n // 8 + 1); lines.append('c%d.tail(%d);' % (k, off)); want.append((cx, off, cx['data'][8 * off:], False))
            else:
                off = r.below(n // 8 + 1); ln = r.below(3); e = min(8 * (off + ln), n)
                lines.append('c%d.fragment(%d, %d);' % (k, off, ln)); want.append((cx, off, cx['data'][8 * off:e], e < n))
        src = ('\n'.join(lines) + '\n').encode()
        impl, model = progdiff.run_both(c, src)
        progdiff.compare(c, src, impl, model, 'frag-contexts', project=lambda f: f[14:], times=False)
        recs = [x[1][14:] for x in progdiff.pcap_records(impl['file'] or b'')]
        if impl['outcome'][0] != 'success' or len(recs) != len(want):
            c.violation('frag:count', 'several contexts: %s, %d records for %d calls' % (impl['outcome'][:2], len(recs), len(want)), dict(src=src.decode()))
        else:
            for d, (cx, off, data, mf) in zip(recs, want):
                kvs = parse_kv(c.model.ask('oracle frag ' + sh_hex(d)))
                exp = dict(src=str(cx['hosts'][0]), dst=str(cx['hosts'][1]), id=str(cx['id']), ttl=str(cx['ttl']), off=str(off), mf=str(mf).lower(), data=sh_hex(data))
                bad = [k for k in exp if kvs.get(k) != exp[k]]
                if bad:
                    c.violation('frag:field:' + ','.join(bad), 'with %d contexts in one program a packet does not carry the header / bytes of the context it was asked of: %s' % (len(ctxs), {k: (kvs.get(k), exp[k]) for k in bad}), dict(src=src.decode()))
                    break
            c.traces_validated += 1
        c.case(('contexts', i), dict(kind='several-contexts', n=len(ctxs)) if i % 3 == 0 else None)
    c.assumptions += ['fragments are decoded from the real pcap by Spec.decodeFrag; IP header checksums are C02\'s business']


def replay(c, data):
    d = data.get('replay') or data['disagreements'][0]['request']
    impl, model = progdiff.run_both(c, d['src'].encode())
    progdiff.compare(c, d['src'].encode(), impl, model, 'replay')
