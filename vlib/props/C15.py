"""C15 — every length-prefixed structure declares exactly the bytes that follow."""
from .. import core
from ..calls import call_both, val_bytes, kv, s
from ..core import sh_hex

RULE = ("each framing helper of the real library is called in-process with contents of boundary sizes (0, 1, 255, 256, 65535, 65536 "
        "where the field allows) and random bytes, with 0..4 parts; helpers nested inside one another (len helper in extension in "
        "hello in record; SNI/certificates/cipher lists in hellos) incl. every present/absent combination of the hello fields. The "
        "bytes produced by the REAL code are parsed by the independent parsers of Spec/Framing.lean and must yield exactly the "
        "supplied parts and consume the input exactly whenever the length fits the field. Non-trivial = non-empty content; "
        "distinct = (helper, sizes)")


def parse(c, kind, b):
    return c.model.ask('oracle frame %s %s' % (kind, sh_hex(b)))


def expect(c, what, cond, detail, rep):
    if not cond:
        c.violation('frame:' + what, detail, rep)


def sizes(c, r, maxfield):
    base = [0, 1, 2, 255, 256] + ([65535, 65536] if maxfield >= 65535 and (not c.quick or r.chance(1, 3)) else []) + ([1000, 5000] if maxfield >= 65535 else [])
    return r.choice(base) if r.chance(2, 3) else r.below(min(maxfield + 2, 700))


def big(r, n):
    """n bytes, cheap to make: a random 61-byte block repeated"""
    blk = r.bytes(61)
    return (blk * (n // 61 + 1))[:n]


def selfsimilar(r):
    """content that looks like framing itself: a DER SEQUENCE header (right, short and long declared length), a TLS record /
    handshake / extension header, big-endian length prefixes, a DNS wire name - followed by more or fewer bytes than it declares"""
    pre = r.choice([b'\x30\x82\x00\x04', b'\x30\x82\x01\x00', b'\x30\x81\x05', b'\x30\x80', b'\x16\x03\x03\x00\x02', b'\x17\x03\x01\xff\xff',
                    b'\x01\x00\x00\x03', b'\x0b\x00\x00\x00', b'\x00\x00\x00\x05', b'\x00\x05', b'\x05', b'\x00', b'\xff\xff\xff', b'\x03www\x07example\x03com\x00',
                    b'\x00\x00\x00\x0b\x00\x09\x00\x00\x06'])
    return pre + r.bytes(r.choice([0, 1, 3, 4, 5, 9, 40]))


def repeats(r, xs):
    """list-valued arguments with equal elements: adjacent, separated, all equal"""
    if not xs or not r.chance(1, 3): return xs
    k = r.below(4)
    if k == 0: return [xs[0]] * (2 + r.below(4))
    if k == 1: i = r.below(len(xs)); return xs[:i + 1] + [xs[i]] + xs[i + 1:]
    if k == 2: return xs + [xs[0]]
    return xs + xs


def parts_of(r, total, n):
    cuts = sorted(r.below(total + 1) for _ in range(n - 1)) if n > 1 else []
    data = r.bytes(total)
    if total and r.chance(1, 5): data = (selfsimilar(r) + data)[:total]
    out, prev = [], 0
    for cpos in cuts + [total]:
        out.append(data[prev:cpos]); prev = cpos
    return out, data


def campaign(c):
    c.rule = RULE
    from ..gen import Lib
    n = 1500 if c.quick else 30000
    for i in range(n):
        r = c.rng.fork('c15-%d' % i)
        k = i % 14
        rep = {}
        key = None
        if k < 4:       # generic length prefixes
            w, fn = [(1, 'std::len_u8'), (2, 'std::len_be16'), (4, 'std::len_be32'), (8, 'std::len_be64')][k]
            total = sizes(c, r, 256 ** w - 1 if w < 4 else 70000)
            parts, data = parts_of(r, total, r.below(4))
            if not parts: data = b''
            res, req = call_both(c, [[fn] + ['-=' + s(p) for p in parts]])
            b = val_bytes(res[0]); rep = dict(req=req[:400000])
            if b is not None and len(data) < 256 ** w:
                f = kv(parse(c, 'lenpfx:%d' % w, b))
                expect(c, fn, f.get('body') == sh_hex(data) and f.get('rest') == '-', '%s does not declare exactly the bytes that follow (len %d)' % (fn, len(data)), rep)
            key = (fn, total, len(parts))
        elif k == 4:    # fixed width integers
            fn, w, le = r.choice([('std::be16', 2, 0), ('std::be32', 4, 0), ('std::be64', 8, 0), ('std::le16', 2, 1), ('std::le32', 4, 1), ('std::le64', 8, 1), ('std::u8', 1, 0)])
            v = r.choice([0, 1, 255, 256, 65535, 65536, 2 ** 32 - 1, 2 ** 32, 2 ** 64 - 1, r.below(2 ** 64)])
            if fn == 'std::u8': v %= 256
            res, req = call_both(c, [[fn, '-=%s:%d' % ('u8' if fn == 'std::u8' else 'u64', v)]])
            b = val_bytes(res[0]); rep = dict(req=req)
            if b is not None:
                got = int.from_bytes(b, 'little' if le else 'big')
                expect(c, fn, len(b) == w and got == v % (256 ** w), '%s(%d) = %s' % (fn, v, b.hex()), rep)
            key = (fn, v)
        elif k == 5:    # TLS record
            total = sizes(c, r, 65535); parts, data = parts_of(r, total, 1 + r.below(3))
            ver, ct = r.choice([0x0301, 0x0303, r.below(65536)]), r.below(256)
            res, req = call_both(c, [['tls::message', 'version=u16:%d' % ver, 'content=u8:%d' % ct] + ['-=' + s(p) for p in parts]])
            b = val_bytes(res[0]); rep = dict(req=req[:400000])
            if b is not None and len(data) < 65536:
                f = kv(parse(c, 'tlsrecord', b))
                expect(c, 'tls::message', f.get('payload') == sh_hex(data) and f.get('content') == str(ct) and f.get('version') == str(ver) and f.get('rest') == '-', 'TLS record framing wrong', rep)
            key = ('tls::message', total)
        elif k == 6:    # extension
            total = sizes(c, r, 65535); parts, data = parts_of(r, total, 1 + r.below(3)); ext = r.below(65536)
            res, req = call_both(c, [['tls::extension', '-=u16:%d' % ext] + ['-=' + s(p) for p in parts]])
            b = val_bytes(res[0]); rep = dict(req=req[:400000])
            if b is not None and len(data) < 65536:
                f = kv(parse(c, 'extension', b))
                expect(c, 'tls::extension', f.get('data') == sh_hex(data) and f.get('ext') == str(ext) and f.get('rest') == '-', 'extension framing wrong', rep)
            key = ('tls::extension', total)
        elif k == 7:    # cipher list
            ids = [r.below(65536) for _ in range(r.choice([0, 1, 2, 17, 300]))]
            ids = repeats(r, ids)
            res, req = call_both(c, [['tls::ciphers'] + ['-=u16:%d' % x for x in ids]])
            b = val_bytes(res[0]); rep = dict(req=req[:400000])
            if b is not None:
                f = kv(parse(c, 'ciphers', b))
                expect(c, 'tls::ciphers', f.get('ids') == ','.join(map(str, ids)) and f.get('rest') == '-', 'cipher list framing wrong', rep)
            key = ('tls::ciphers', len(ids))
        elif k in (8, 9):   # sni / certificates
            fn, kind, fld = ('tls::sni', 'sni', 'names') if k == 8 else ('tls::certificates', 'certs', 'certs')
            items = [r.choice([r.bytes(r.choice([0, 1, 10, 255, 256, 1000])), b'www.example.com.', b'.', b'a.', b'..', b'x' * r.below(5) + b'.']) for _ in range(r.below(4))]
            items = repeats(r, items)
            if r.chance(1, 3): items = [selfsimilar(r) if r.chance(2, 3) else x for x in (items or [b''])] + ([selfsimilar(r)] if r.chance(1, 2) else [])
            if k == 9 and r.chance(1, 4):
                # 24-bit lengths beyond 16 bits: one big certificate, or a chain whose entries are each below 64 KiB
                items = r.choice([[big(r, 65530)], [big(r, 65535)], [big(r, 65536)], [big(r, 40000), big(r, 30000), b'tail!'], [b'x', big(r, 70000)], [big(r, 65527), b'']])
            res, req = call_both(c, [[fn] + ['-=' + s(x) for x in items]])
            b = val_bytes(res[0]); rep = dict(req=req[:400000])
            if b is not None:
                f = kv(parse(c, kind, b))
                expect(c, fn, f.get(fld, '') == ','.join(sh_hex(x) for x in items) and f.get('rest') == '-', '%s framing wrong' % fn, rep)
            key = (fn, tuple(len(x) for x in items))
        elif k in (10, 11):  # hellos with every present/absent combination
            client = k == 10
            sid = r.bytes(r.choice([0, 1, 32])); comp = r.bytes(r.choice([0, 1, 2])); ids = repeats(r, [r.below(65536) for _ in range(r.below(4))])
            exts = repeats(r, [(r.below(65536), r.bytes(r.choice([0, 1, 5, 300])) if r.chance(4, 5) else selfsimilar(r)) for _ in range(r.below(3))])
            if r.chance(1, 8):   # an extension block of (almost) 64 KiB: the hello needs all 24 bits of its handshake length
                exts = r.choice([[(r.below(65536), big(r, 65531))], [(1, big(r, 30000)), (2, big(r, 35000))], [(7, big(r, 65000)), (8, b'ab')]])
            empties = r.choice([0, 0, 1, 2])          # extension arguments that are empty byte strings
            ver = r.choice([0x0303, 0x0301, 0x0300, 0x0002, 0x0200, 0x0304, 0, 0xffff, r.below(65536)])   # every protocol generation: option interactions
            use = dict(version=r.chance(1, 2), sessionid=r.chance(1, 2), ciphers=r.chance(1, 2), compression=r.chance(1, 2))
            steps = [['std::len_u8', '-=' + s(sid)], ['tls::ciphers'] + ['-=u16:%d' % x for x in ids], ['std::len_u8', '-=' + s(comp)]]
            for e, d in exts: steps.append(['tls::extension', '-=u16:%d' % e, '-=' + s(d)])
            base = len(steps)
            if client:
                args = (['version=u16:%d' % ver] if use['version'] else []) + (['sessionid=$0'] if use['sessionid'] else []) + \
                       (['ciphers=$1'] if use['ciphers'] else []) + (['compression=$2'] if use['compression'] else []) + ['-=str:-'] * empties + ['-=$%d' % (3 + j) for j in range(len(exts))]
                steps.append(['tls::client_hello'] + args)
            else:
                cipher, cm = r.below(65536), r.below(256)
                args = (['version=u16:%d' % ver] if use['version'] else []) + (['sessionid=$0'] if use['sessionid'] else []) + \
                       (['cipher=u16:%d' % cipher] if use['ciphers'] else []) + (['compression=u8:%d' % cm] if use['compression'] else []) + ['-=str:-'] * empties + ['-=$%d' % (3 + j) for j in range(len(exts))]
                steps.append(['tls::server_hello'] + args)
            steps.append(['tls::message', '-=$%d' % base])
            res, req = call_both(c, steps); rep = dict(req=req[:400000])
            b = val_bytes(res[base]); rec = val_bytes(res[base + 1])
            if b is not None:
                f = kv(parse(c, 'clienthello' if client else 'serverhello', b))
                extbytes = b''.join(e.to_bytes(2, 'big') + len(d).to_bytes(2, 'big') + d for e, d in exts)
                if len(extbytes) > 65535:
                    c.count('hello-ext-block-does-not-fit'); continue
                ok = f.get('rest') == '-' and f.get('version') == str(ver if use['version'] else 0x0303) and \
                    f.get('sid') == sh_hex(sid if use['sessionid'] else b'') and f.get('ext') == (sh_hex(extbytes) if extbytes else 'absent')
                if client:
                    ok = ok and f.get('ciphers') == (','.join(map(str, ids)) if use['ciphers'] else '0') and f.get('comp') == (sh_hex(comp) if use['compression'] else '00')
                else:
                    ok = ok and f.get('cipher') == str(cipher if use['ciphers'] else 0) and f.get('comp') == str(cm if use['compression'] else 0)
                expect(c, 'tls::hello', ok, 'hello does not parse back to the supplied parts: %s' % f, rep)
                hs = kv(parse(c, 'handshake', b))
                expect(c, 'tls::hello-len', hs.get('rest') == '-' and hs.get('typ') == ('1' if client else '2'), 'handshake header of the hello does not declare exactly the bytes that follow', rep)
                if ok and extbytes:
                    el = kv(parse(c, 'extlist', extbytes))
                    expect(c, 'tls::hello-ext', el.get('exts') == ','.join('%d:%s' % (e, sh_hex(d)) for e, d in exts), 'extension block does not parse', rep)
                if rec is not None and len(b) < 65536:
                    fr = kv(parse(c, 'tlsrecord', rec))
                    expect(c, 'tls::nesting', fr.get('payload') == sh_hex(b) and fr.get('rest') == '-', 'record around hello wrong', rep)
            key = ('hello', client, tuple(use.values()), len(exts))
        elif k == 12:   # dhcp option
            opt = r.below(256); total = sizes(c, r, 255); parts, data = parts_of(r, total, 1 + r.below(2))
            res, req = call_both(c, [['dhcp::option', '-=u8:%d' % opt] + ['-=' + s(p) for p in parts]])
            b = val_bytes(res[0]); rep = dict(req=req[:400000])
            if b is not None and len(data) < 256:
                f = kv(parse(c, 'dhcpopt', b))
                expect(c, 'dhcp::option', f.get('opt') == str(opt) and f.get('data') == sh_hex(data) and f.get('rest') == '-', 'DHCP option framing wrong', rep)
            key = ('dhcp::option', total)
        else:           # dns answer rdata
            name = r.bytes(r.below(20)); total = sizes(c, r, 65535); parts, data = parts_of(r, total, 1 + r.below(2))
            t, cl, ttl = r.below(65536), r.below(65536), r.below(2 ** 32)
            res, req = call_both(c, [['dns::answer', '-=' + s(name), 'atype=u16:%d' % t, 'aclass=u16:%d' % cl, 'ttl=u32:%d' % ttl] + ['-=' + s(p) for p in parts]])
            b = val_bytes(res[0]); rep = dict(req=req[:400000])
            if b is not None and len(data) < 65536:
                f = kv(parse(c, 'rr:%d' % len(name), b))
                expect(c, 'dns::answer', f.get('data') == sh_hex(data) and f.get('type') == str(t) and f.get('class') == str(cl) and f.get('ttl') == str(ttl) and f.get('rest') == '-', 'RR framing wrong', rep)
            key = ('dns::answer', total)
        c.traces_validated += 1
        c.count('helper:%d' % k)
        c.case(key, dict(rep, kind=k) if c.evaluations % 20 == 0 else None)
    # selector grids: EVERY value of the one-byte selector of a framing helper (TLS content type, DHCP option code) and every named
    # extension / record type, each with no content at all, empty parts, one byte and a short string: the selector never changes
    # how the length is computed
    lib = Lib()
    named16 = sorted(set(int(x['def']['value']) for x in lib.consts if x['def']['type'] == 'U16' and x['path'].startswith(('tls::ext', 'dns::rtype'))))
    conts = [[], [b''], [b'', b''], [b'\x01'], [b'', b'ab', b'']]
    for sel in range(256):
        for parts in conts:
            data = b''.join(parts)
            for fn, kind, args, fld in (('tls::message', 'tlsrecord', ['content=u8:%d' % sel], ('content', 'payload')), ('dhcp::option', 'dhcpopt', ['-=u8:%d' % sel], ('opt', 'data'))):
                res, req = call_both(c, [[fn] + args + ['-=' + s(p) for p in parts]])
                b = val_bytes(res[0]); rep = dict(req=req)
                if b is not None:
                    f = kv(parse(c, kind, b))
                    expect(c, fn, f.get(fld[0]) == str(sel) and f.get(fld[1]) == sh_hex(data) and f.get('rest') == '-', '%s with selector %d and content %s: framing wrong' % (fn, sel, [p.hex() for p in parts]), rep)
        c.case(('selector', sel), dict(kind='selector-grid', selector=sel) if sel % 32 == 20 else None)
    # typed values as content (an integer literal is eight bytes, a typed constant one or two, an address four): the body is
    # those bytes at that width, for every selector
    TYPED = [(['-=u64:1'], (1).to_bytes(8, 'big')), (['-=u64:0'], bytes(8)), (['-=u8:1'], b'\x01'), (['-=u16:1'], b'\x00\x01'), (['-=u32:1'], b'\x00\x00\x00\x01'), (['-=ip4:1'], b'\x00\x00\x00\x01'),
             (['-=str:0000000000000001'], (1).to_bytes(8, 'big')), (['-=u64:1', '-=u8:2'], (1).to_bytes(8, 'big') + b'\x02'), (['-=u64:18446744073709551615'], b'\xff' * 8)]
    PKT = bytes(range(60))
    TYPED += [(['-=pkt:' + PKT.hex()], PKT), (['-=pkt:' + PKT.hex(), '-=u8:9'], PKT + b'\x09'), (['-=str:6162', '-=pkt:' + PKT[:14].hex(), '-=ip4:1'], b'ab' + PKT[:14] + b'\x00\x00\x00\x01')]
    for targs, data in TYPED:
        for w, fn in ((1, 'std::len_u8'), (2, 'std::len_be16'), (4, 'std::len_be32'), (8, 'std::len_be64')):
            res, req = call_both(c, [[fn] + targs])
            b = val_bytes(res[0])
            if b is not None:
                f = kv(parse(c, 'lenpfx:%d' % w, b))
                expect(c, fn, f.get('body') == sh_hex(data) and f.get('rest') == '-', '%s over typed parts %s: the prefix does not count the bytes that follow' % (fn, [x[:24] for x in targs]), dict(req=req))
    for sel in list(range(256)) + [x for x in named16 if x > 255]:
        for targs, data in TYPED:
            for fn, kind, lead, fld in (('tls::extension', 'extension', ['-=u16:%d' % sel], ('ext', 'data')), ('tls::message', 'tlsrecord', ['content=u8:%d' % (sel % 256)], ('content', 'payload')),
                                        ('dhcp::option', 'dhcpopt', ['-=u8:%d' % (sel % 256)], ('opt', 'data')), ('dns::answer', 'rr:3', ['-=' + s(b'\x01a\x00'), 'atype=u16:%d' % sel], ('type', 'data'))):
                if sel > 255 and fn in ('tls::message', 'dhcp::option'): continue
                res, req = call_both(c, [[fn] + lead + targs])
                b = val_bytes(res[0])
                if b is not None:
                    f = kv(parse(c, kind, b))
                    expect(c, fn, f.get(fld[1]) == sh_hex(data) and f.get(fld[0]) == str(sel % 256 if fn in ('tls::message', 'dhcp::option') else sel) and f.get('rest') == '-',
                           '%s with selector %d and typed content %s: the body is not those values at their widths (%s)' % (fn, sel, targs, f.get(fld[1])), dict(req=req))
    for sel in named16 + list(range(0, 64)):
        for parts in conts:
            data = b''.join(parts)
            res, req = call_both(c, [['tls::extension', '-=u16:%d' % sel] + ['-=' + s(p) for p in parts]])
            b = val_bytes(res[0]); rep = dict(req=req)
            if b is not None:
                f = kv(parse(c, 'extension', b))
                expect(c, 'tls::extension', f.get('data') == sh_hex(data) and f.get('ext') == str(sel) and f.get('rest') == '-', 'extension %d with content %s: framing wrong' % (sel, [p.hex() for p in parts]), rep)
            res, req = call_both(c, [['dns::answer', '-=' + s(b'\x01a\x00'), 'atype=u16:%d' % sel] + ['-=' + s(p) for p in parts]])
            b = val_bytes(res[0]); rep = dict(req=req)
            if b is not None:
                f = kv(parse(c, 'rr:3', b))
                expect(c, 'dns::answer', f.get('data') == sh_hex(data) and f.get('type') == str(sel) and f.get('rest') == '-', 'RR of type %d with data %s: framing wrong' % (sel, [p.hex() for p in parts]), rep)
    # content that looks like framing itself, deterministically: every look-alike header x a few tail lengths as the first, the
    # middle and the only part of every helper's content (lengths always come from the bytes supplied, never from inside them)
    PRE = [b'\x30\x82\x00\x04', b'\x30\x82\x01\x00', b'\x30\x82\x00\x00', b'\x30\x81\x05', b'\x30\x80', b'\x16\x03\x03\x00\x02', b'\x17\x03\x01\xff\xff', b'\x01\x00\x00\x03', b'\x0b\x00\x00\x00',
           b'\x00\x00\x00\x05', b'\x00\x05', b'\x05', b'\x00', b'\xff\xff\xff', b'\x03www\x07example\x03com\x00', b'\x00\x00\x00\x0b\x00\x09\x00\x00\x06', b'\x35\x01\x05', b'\xff', b'\xc0\x0c']
    HELP = [('tls::certificates', 'certs', [], lambda f, items: f.get('certs', '') == ','.join(sh_hex(x) for x in items)),
            ('tls::sni', 'sni', [], lambda f, items: f.get('names', '') == ','.join(sh_hex(x) for x in items)),
            ('tls::extension', 'extension', ['-=u16:10'], lambda f, items: f.get('data') == sh_hex(b''.join(items))),
            ('tls::message', 'tlsrecord', [], lambda f, items: f.get('payload') == sh_hex(b''.join(items))),
            ('std::len_be16', 'lenpfx:2', [], lambda f, items: f.get('body') == sh_hex(b''.join(items))),
            ('std::len_u8', 'lenpfx:1', [], lambda f, items: f.get('body') == sh_hex(b''.join(items))),
            ('dhcp::option', 'dhcpopt', ['-=u8:61'], lambda f, items: f.get('data') == sh_hex(b''.join(items))),
            ('dns::answer', 'rr:3', ['-=' + s(b'\x01a\x00')], lambda f, items: f.get('data') == sh_hex(b''.join(items)))]
    for pre in PRE:
        for tl in (0, 1, 5, 40):
            x = pre + bytes((7 * k + 1) % 256 for k in range(tl))
            for items in ([x], [x, b'tail'], [b'head', x], [x, x]):
                for fn, kind, lead, okf in HELP:
                    res, req = call_both(c, [[fn] + lead + ['-=' + s(p_) for p_ in items]])
                    b = val_bytes(res[0])
                    if b is not None:
                        f = kv(parse(c, kind, b))
                        expect(c, fn, okf(f, items) and f.get('rest') == '-', '%s over content that looks like framing (%s...): declared lengths do not match the bytes supplied' % (fn, x[:6].hex()), dict(req=req))
    c.count('look-alike-grid', len(PRE) * 4 * 4 * len(HELP))
    # DNS resource-record data inside the message dns::host builds: every answer declares RDLENGTH 4 and is followed by exactly its
    # address, for 0..n answers (an independent message parser walks the response record by record)
    for i in range(40 if c.quick else 600):
        r = c.rng.fork('c15-host-%d' % i)
        ips = [r.below(2 ** 32) for _ in range([0, 1, 2, 3, 4, 7, 16, 33][i % 8])]
        name = r.choice([b'a', b'example.com', b'www.a-long-label-of-some-kind.example.org', b'x.y.z.w'])
        ttl = r.choice([229, 0, 1, 2 ** 32 - 1])
        res, req = call_both(c, [['dns::host', '-=ip4:%d' % r.below(2 ** 32), '-=' + s(name)] + (['ttl=u32:%d' % ttl] if ttl != 229 else []) + (['raw=bool:true']) + ['-=ip4:%d' % x for x in ips]])
        rep = dict(req=req)
        if res[0].startswith('ok pktgen:['):
            frames = [core.unhex(x) for x in res[0][len('ok pktgen:['):-1].split(',')]
            u = kv(parse(c, 'udpframe:1', frames[-1])) if len(frames) == 2 else {}
            m = parse(c, 'dnsmsg', core.unhex(u['payload'])) if u.get('payload') else 'none'
            qn = '.'.join(sh_hex(l) for l in name.split(b'.'))
            want = ';'.join('[%s 1 1 %d %s]' % (qn, ttl, sh_hex(x.to_bytes(4, 'big'))) for x in ips)
            expect(c, 'dns::host', m.startswith('ok') and m.split(' an=')[1] == want and kv(m)['counts'].split(',')[1] == str(len(ips)),
                   'the response of dns::host with %d addresses does not parse record by record into the supplied answers: %s' % (len(ips), m[:120]), rep)
            c.traces_validated += 1
        else:
            expect(c, 'dns::host', False, 'dns::host failed: %s' % res[0][:80], rep)
        c.case(('host', i), dict(kind='dns::host', answers=len(ips)) if i % 8 == 3 else None)
    # DNS RR: every named class (and 0 / 254 / 255) x TTL 0, 1, default x data of 0, 1 and 4 bytes - RDLENGTH is the length of the data,
    # whatever the class and TTL say (RFC 2136 uses class ANY / NONE with TTL 0 for special purposes: not this builder's business)
    classes = sorted(set([0, 1, 254, 255] + [int(x['def']['value']) for x in lib.consts if x['def']['type'] == 'U16' and x['path'].startswith('dns::class')]))
    for cl in classes:
        for ttl in (None, 0, 1):
            for parts in ([], [b''], [b'\x01'], [b'abcd'], [b'ab', b'cd']):
                data = b''.join(parts)
                res, req = call_both(c, [['dns::answer', '-=' + s(b'\x01a\x00'), 'aclass=u16:%d' % cl] + (['ttl=u32:%d' % ttl] if ttl is not None else []) + ['-=' + s(p_) for p_ in parts]])
                b = val_bytes(res[0])
                if b is not None:
                    f = kv(parse(c, 'rr:3', b))
                    expect(c, 'dns::answer', f.get('data') == sh_hex(data) and f.get('class') == str(cl) and f.get('rest') == '-' and (ttl is None or f.get('ttl') == str(ttl)),
                           'RR of class %d, ttl %s with %d data bytes: RDLENGTH / fields wrong: %s' % (cl, ttl, len(data), f), dict(req=req))
    c.count('selector-grid', 256 * len(conts) * 2 + (len(named16) + 64) * len(conts) * 2)
    c.assumptions += ['hello builders take session id / cipher list / compression as already framed byte strings; the campaign frames them with the library\'s own len_u8 / tls::ciphers']


def replay(c, data):
    d = data.get('replay') or data['disagreements'][0]['request']
    hi = c.harness.ask(d['req']); mo = c.model.ask(d['req'])
    if hi != mo: c.disagree('replay', d, hi[:300], mo[:300])
