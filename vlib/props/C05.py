"""C05 — payload fidelity: the bytes a script supplies are the bytes on the wire."""
from .. import core, progdiff
from ..core import sh_hex

RULE = ("byte strings chosen first (every byte value, empty, odd/even, up to the size limit) and then SPELLED at random: plain text, "
        "non-ASCII UTF-8 text, |hex| sections with every separator, mixed text/hex, adjacent literals on one line and split across "
        "lines (also splitting a hex section), text::concat / text::crlflines nesting, let-bound pieces, integers via std::be16/32/64 "
        "and as coerced integer types, addresses as bytes, packets as bytes; placed in every payload-carrying builder (TCP message/"
        "segment, UDP flow/unicast/broadcast, ICMP echo, eth::frame, ipv4::datagram, fragment context, tunnels). The payload found in "
        "the REAL pcap at the builder's header length must equal the chosen bytes. io::bufio read(n)/read_all sequences must partition "
        "the buffer. Non-trivial = non-empty payload; distinct = (builder, spelling plan, bytes)")

PROOF_MODULES = ['Resynth.Props.C05', 'Resynth.Props.C05Builders']

TEXT_OK = set(range(0x20, 0x7f)) - {0x22, 0x7c}


def spell(r, b, lets, depth=0):
    """an expression (possibly several adjacent literals) whose value is exactly the bytes b"""
    k = r.below(12)
    if k == 0 and all(x in TEXT_OK for x in b):
        return '"%s"' % b.decode('ascii')
    if k == 1:
        sep = r.choice(['', ' ', ':', '.', '_', '-', "'", '`', '  '])
        body = '|%s|' % sep.join('%02x' % x if r.chance(1, 2) else '%02X' % x for x in b)
        if r.chance(1, 4) and len(body) > 2:
            cut = 1 + r.below(len(body) - 1)      # raw merging: a hex section may span two adjacent literals
            return '"%s"%s"%s"' % (body[:cut], r.choice([' ', '\n  ', ' # split "here\n  ', ' // |zz|\n']), body[cut:])
        return '"%s"' % body
    if k == 2 and len(b) >= 2:
        i = r.below(len(b) + 1)
        x, y = spell(r, b[:i], lets, depth + 1), spell(r, b[i:], lets, depth + 1)
        if x.startswith('"') and x.endswith('"') and y.startswith('"') and y.endswith('"') and r.chance(2, 3):
            return x + r.choice([' ', '\n    ', '  \n', ' # part "1\n    ', '// c\n', ' //x|00|\n\n  ']) + y        # adjacent literals merge lexically (comments and blank lines between them are skipped)
        return 'text::concat(%s, %s)' % (x, y)
    if k == 3 and depth < 3:
        n = 1 + r.below(3)
        cuts = sorted(r.below(len(b) + 1) for _ in range(n))
        parts = [b[x:y] for x, y in zip([0] + cuts, cuts + [len(b)])]
        return 'text::concat(%s)' % ', '.join(spell(r, p, lets, depth + 1) for p in parts)
    if k == 4 and len(b) in (2, 4, 8):
        return 'std::be%d(%d)' % (len(b) * 8, int.from_bytes(b, 'big'))
    if k == 5 and len(b) in (2, 4, 8):
        return 'std::le%d(%d)' % (len(b) * 8, int.from_bytes(b, 'little'))
    if k == 6 and len(b) == 4:
        return '%d.%d.%d.%d' % tuple(b)                       # an address used as bytes
    if k == 7 and len(b) == 8:
        return '%d' % int.from_bytes(b, 'big')                # a u64 literal used as bytes (big endian)
    if k == 8 and len(b) >= 14 and depth < 2:
        return 'eth::frame("|%s|", "|%s|", ethertype: %d, %s)' % (b[6:12].hex(), b[0:6].hex(), int.from_bytes(b[12:14], 'big'), spell(r, b[14:], lets, depth + 1))
    if k == 9 and depth < 2:
        inner = spell(r, b, lets, depth + 1)
        name = 'l%d' % len(lets)
        lets.append('let %s = %s;' % (name, inner))
        return name
    if k == 10 and b.count(b'\r\n') >= 1 and depth < 2:
        parts = b.split(b'\r\n')
        return 'text::crlflines(%s)' % ', '.join(spell(r, p, lets, depth + 1) for p in parts)
    if k == 11:
        try:
            t = b.decode('utf-8')
            if all((ord(ch) >= 0x20 and ch not in '"|' and ord(ch) != 0x7f) for ch in t) and not all(x < 0x80 for x in b):
                return '"%s"' % t
        except UnicodeDecodeError:
            pass
    # mixed text / hex
    out = ''
    i = 0
    while i < len(b):
        j = i + 1 + r.below(6)
        chunk = b[i:j]
        if all(x in TEXT_OK for x in chunk) and r.chance(1, 2): out += chunk.decode('ascii')
        else: out += '|%s|' % ' '.join('%02x' % x for x in chunk)
        i = j
    return '"%s"' % out


def _both_literals(r, b, i):
    return r.chance(2, 3)


def pick_bytes(r, maxlen):
    k = r.below(10)
    n = r.choice([0, 1, 2, 3, 4, 7, 8, 14, 15, 16, 31, 64, 255, 256]) if r.chance(2, 3) else r.below(maxlen)
    if k == 0: return bytes(range(256))[:max(n, 1)] if n < 256 else bytes(range(256))
    if k == 1: return ('héllo wörld € ✓ ' * (1 + n // 20)).encode('utf-8')[:n].decode('utf-8', 'ignore').encode('utf-8')
    if k == 2: return (b'GET / HTTP/1.1\r\nHost: example\r\n\r\n' * (1 + n // 30))[:n]
    if k == 3: return bytes([r.choice([0, 0x22, 0x7c, 0x0a, 0x0d, 0xff, 0x80, 0x7f])] * n)
    return r.bytes(n)


BUILDERS = [
    ('tcp-msg', 54, lambda e, raw: ('let f = ipv4::tcp::flow(1.2.3.4:5, 6.7.8.9:80);', 'f.client_message(send_ack: false, %s);' % e)),
    ('tcp-srv-msg', 54, lambda e, raw: ('let f = ipv4::tcp::flow(1.2.3.4:5, 6.7.8.9:80);', 'f.server_message(send_ack: false, %s);' % e)),
    ('tcp-seg', 54, lambda e, raw: ('let f = ipv4::tcp::flow(1.2.3.4:5, 6.7.8.9:80);', 'f.client_segment(%s);' % e)),
    ('udp-flow', 42, lambda e, raw: ('let f = ipv4::udp::flow(1.2.3.4:5, 6.7.8.9:80);', 'f.server_dgram(%s);' % e)),
    ('udp-unicast', 42, lambda e, raw: ('', 'ipv4::udp::unicast(1.2.3.4:5, 6.7.8.9:80, %s);' % e)),
    ('udp-broadcast', 42, lambda e, raw: ('', 'ipv4::udp::broadcast(1.2.3.4:68, 255.255.255.255:67, %s);' % e)),
    ('icmp-echo', 42, lambda e, raw: ('let f = ipv4::icmp::flow(1.2.3.4, 6.7.8.9);', 'f.echo(text::concat(%s));' % e)),
    ('icmp-reply', 42, lambda e, raw: ('let f = ipv4::icmp::flow(1.2.3.4, 6.7.8.9);', 'f.echo_reply(text::concat(%s));' % e)),
    ('eth-frame', 14, lambda e, raw: ('', 'eth::frame("|000000000001|", "|000000000002|", %s);' % e)),
    ('ip-datagram', 34, lambda e, raw: ('', 'ipv4::datagram(1.2.3.4, 6.7.8.9, proto: 200, %s);' % e)),
    ('frag-datagram', 34, lambda e, raw: ('let g = ipv4::frag(1.2.3.4, 6.7.8.9, %s);' % e, 'g.datagram();')),
    ('frag-tail', 34, lambda e, raw: ('let g = ipv4::frag(1.2.3.4, 6.7.8.9, %s);' % e, 'g.tail(0);')),
    ('frag-fragment', 34, lambda e, raw: ('let g = ipv4::frag(1.2.3.4, 6.7.8.9, %s);' % e, 'g.fragment(0, 8191);')),
    ('vxlan', 14 + 20 + 8 + 8 + 14, lambda e, raw: ('let v = vxlan::session(1.1.1.1:1, 2.2.2.2:4789);', 'v.dgram(eth::frame("|000000000001|", "|000000000002|", %s));' % e)),
    ('gre', 14 + 20 + 4 + 14, lambda e, raw: ('let v = gre::session(1.1.1.1, 2.2.2.2, 0x6558);', 'v.encap(eth::frame("|000000000001|", "|000000000002|", %s));' % e)),
    ('tls-in-tcp', 54 + 5, lambda e, raw: ('let f = ipv4::tcp::flow(1.2.3.4:5, 6.7.8.9:443);', 'f.client_message(send_ack: false, tls::message(%s));' % e)),
    ('udp-raw-flow', 28, lambda e, raw: ('let f = ipv4::udp::flow(1.2.3.4:5, 6.7.8.9:80, raw: true);', 'f.client_dgram(%s);' % e)),
    ('udp-rawdgram', 14 + 8, lambda e, raw: ('let f = ipv4::udp::flow(1.2.3.4:5, 6.7.8.9:80);', 'eth::frame("|000000000001|", "|000000000002|", f.client_raw_dgram(%s));' % e)),
    ('udp-rawdgram-rawflow', 14 + 8, lambda e, raw: ('let f = ipv4::udp::flow(1.2.3.4:5, 6.7.8.9:80, raw: true);', 'eth::frame("|000000000001|", "|000000000002|", f.server_raw_dgram(%s));' % e)),
    ('tcp-rawseg', 14 + 20, lambda e, raw: ('let f = ipv4::tcp::flow(1.2.3.4:5, 6.7.8.9:80);', 'eth::frame("|000000000001|", "|000000000002|", f.client_raw_segment(%s));' % e)),
    ('tcp-rawseg-rawflow', 14 + 20, lambda e, raw: ('let f = ipv4::tcp::flow(1.2.3.4:5, 6.7.8.9:80, raw: true);', 'eth::frame("|000000000001|", "|000000000002|", f.server_raw_segment(%s));' % e)),
    ('tcp-raw-flow', 40, lambda e, raw: ('let f = ipv4::tcp::flow(1.2.3.4:5, 6.7.8.9:80, raw: true);', 'f.server_message(send_ack: false, %s);' % e)),
    ('icmp-raw-flow', 28, lambda e, raw: ('let f = ipv4::icmp::flow(1.2.3.4, 6.7.8.9, raw: true);', 'f.echo(text::concat(%s));' % e)),
    ('unicast-raw', 28, lambda e, raw: ('', 'ipv4::udp::unicast(1.2.3.4:5, 6.7.8.9:80, raw: true, %s);' % e)),
    ('len-prefixed', 14 + 2, lambda e, raw: ('', 'eth::frame("|000000000001|", "|000000000002|", std::len_be16(%s));' % e)),
]
HEAD = 'import ipv4;\nimport eth;\nimport text;\nimport std;\nimport tls;\nimport vxlan;\nimport gre;\nimport io;\nimport dns;\nimport dhcp;\nimport netbios;\nimport erspan1;\nimport erspan2;\nimport time;\nimport arp;\n'


def one(c, r, name, hdr, mk, b, i, typed=None):
    lets = []
    e = spell(r, b, lets)
    if typed:
        # typed library values used as bytes: every integer constant contributes its big-endian bytes at its own width
        # (1, 2, 4 or 8), a bytes constant its bytes; placed before, between and after spelled chunks
        parts = [e]
        for path, raw in typed:
            parts.append(path); b = b + raw
            if r.chance(1, 2):
                x = pick_bytes(r, 12); parts.append(spell(r, x, lets)); b = b + x
        if r.chance(1, 2):
            nm = 'l%d' % len(lets); lets.append('let %s = %s;' % (nm, parts[1])); parts[1] = nm
        e = ', '.join(parts) if r.chance(1, 2) else 'text::concat(%s)' % ', '.join(parts)
        c.count('typed-constants-as-bytes', len(typed))
    remark = r.chance(1, 6)
    if remark: e = e + r.choice([' # the payload\n', ' // "quoted" remark\n    ', '\n'])     # a remark after the last argument, the call closed on the next line
    decl, stmt = mk(e, False)
    src = (HEAD + '\n'.join(lets) + '\n' + decl + '\n' + stmt + '\n').encode('utf-8')
    if i % 7 == 5 and len(src) < 20000 and not remark and '#' not in e and '//' not in e:
        from ..gen import Lib, name_mandatory
        src = name_mandatory(src, Lib(), r, (2, 3))
    elif i % 5 == 4 and len(src) < 20000 and not remark and '#' not in e and '//' not in e:
        from ..gen import hoist_literals
        src = hoist_literals(src, r)
    impl, model = progdiff.run_both(c, src)
    progdiff.compare(c, src, impl, model, 'payload:' + name, project=lambda f, h=hdr: f[h:], times=False)
    rep = dict(src=src.decode("utf-8")[:600000], want=b.hex()[:400])
    key = None
    if impl['outcome'][0] == 'success':
        recs = progdiff.pcap_records(impl['file'] or b'')
        if len(recs) != 1:
            c.violation('payload:count', '%s: expected one packet, got %d' % (name, len(recs)), rep)
        else:
            got = recs[0][1][hdr:]
            if got != b:
                c.violation('payload:%s' % name, 'payload on the wire differs from the bytes the script spelled (%d vs %d bytes)' % (len(got), len(b)), dict(rep, got=got.hex()[:400]))
        if b: key = (name, hash(e), hash(b))
        c.traces_validated += 1
    elif impl['outcome'][0] == 'panic':
        c.violation('payload:panic', 'panic: %s' % (impl['outcome'][1],), rep)
    else:
        c.violation('payload:rejected', '%s: a well-formed payload expression was rejected: %s' % (name, impl['outcome'],), rep)
    c.count('builder:' + name)
    c.case(key, dict(builder=name, expr=e[:200], n=len(b)) if key and i % 25 == 0 else None)


TYPED = []


def campaign(c):
    c.rule = RULE
    from ..gen import Lib
    W = {'U8': 1, 'U16': 2, 'U32': 4, 'U64': 8}
    for sdef in Lib().consts:
        d = sdef['def']
        if d['type'] in W: TYPED.append((sdef['path'], int(d['value']).to_bytes(W[d['type']], 'big')))
        elif d['type'] == 'Str': TYPED.append((sdef['path'], core.unhex(d['value'])))
    n = 300 if c.quick else 8000
    for i in range(n):
        r = c.rng.fork('c05-%d' % i)
        name, hdr, mk = BUILDERS[i % len(BUILDERS)]
        b = pick_bytes(r, 3000 if c.quick else 20000)
        if name in ('tcp-msg',) and i % 31 == 0 and not c.quick: b = r.bytes(65535 - 40)
        if name in ('frag-tail', 'frag-fragment', 'frag-datagram') and i % 3 == 0: b = r.bytes(r.choice([8191, 8192, 9000, 16384, 20000]))
        typed = None
        if i % 4 == 2 and name != 'len-prefixed':
            typed = [r.choice(TYPED) for _ in range(1 + r.below(3))]
        one(c, r, name, hdr, mk, b, i, typed)
    # scale: every builder with payloads around 2^13 and close to the largest datagram; layer-2 builders beyond 2^16
    for j, (name, hdr, mk) in enumerate(BUILDERS):
        for size in ([8192, 65000] if c.quick else [8191, 8192, 8193, 16385, 32768, 65000]) + ([65536, 70001] if name == 'eth-frame' else []):
            r = c.rng.fork('c05-big-%d-%d' % (j, size))
            if name == 'len-prefixed' and size > 65535: continue
            if name == 'frag-fragment' and size > 65528: continue
            blk = r.bytes(251)
            one(c, r, name, hdr, mk, (blk * (size // 251 + 1))[:size], 25 * j)
            c.count('scale-payloads')
    # one fragmentation context used several times, in any order (tail / datagram not last, overlapping requests): every call
    # hands out its slice of the SAME payload - a call must not consume or shorten what the context holds
    for i in range(12 if c.quick else 200):
        r = c.rng.fork('c05-ctx-%d' % i)
        b = pick_bytes(r, 90) or b'x'
        n = len(b)
        ops = []
        for _ in range(3 + r.below(5)):
            k = r.below(3)
            off = r.below(n // 8 + 1)
            if k == 0: ln = r.below(n // 8 + 2); ops.append(('fr.fragment(%d, %d);' % (off, ln), b[8 * off:min(8 * (off + ln), n)]))
            elif k == 1: ops.append(('fr.tail(%d);' % off, b[8 * off:]))
            else: ops.append(('fr.datagram();', b))
        lets = []
        src = (HEAD + 'let fr = ipv4::frag(1.2.3.4, 6.7.8.9, %s);\n' % spell(r, b, lets) + '\n'.join(o[0] for o in ops) + '\n')
        src = ('\n'.join(lets) + '\n' if lets else '').join([src[:len(HEAD)], src[len(HEAD):]]).encode('utf-8')
        impl, model = progdiff.run_both(c, src)
        progdiff.compare(c, src, impl, model, 'payload:frag-context', project=lambda f: f[34:], times=False)
        if impl['outcome'][0] == 'success':
            recs = [x[1][34:] for x in progdiff.pcap_records(impl['file'] or b'')]
            if recs != [o[1] for o in ops]:
                bad = [j for j, (g, o) in enumerate(zip(recs, ops)) if g != o[1]]
                c.violation('payload:frag-context', 'call %s on a context used before does not carry its slice of the payload (%d calls, %d records)' % (ops[bad[0]][0] if bad else '?', len(ops), len(recs)), dict(src=src.decode('utf-8')[:3000]))
        else:
            c.violation('payload:rejected', 'frag-context: %s' % (impl['outcome'],), dict(src=src.decode('utf-8')[:3000]))
        c.case(('ctx', i), dict(kind='frag-context', ops=[o[0] for o in ops]) if i % 4 == 0 else None)
    # one stateful flow used several times: every call carries ITS OWN bytes, whatever the calls before it carried (empty after
    # non-empty, short after long, the same call twice)
    for i in range(36 if c.quick else 600):
        r = c.rng.fork('c05-hist-%d' % i)
        kind = ['icmp', 'udp', 'tcp'][i % 3]
        decl, hdr, calls = {'icmp': ('let f = ipv4::icmp::flow(1.2.3.4, 6.7.8.9);', 42, ['f.echo(%s);', 'f.echo_reply(%s);']),
                            'udp': ('let f = ipv4::udp::flow(1.2.3.4:5, 6.7.8.9:80);', 42, ['f.client_dgram(%s);', 'f.server_dgram(%s);']),
                            'tcp': ('let f = ipv4::tcp::flow(1.2.3.4:5, 6.7.8.9:80);', 54, ['f.client_message(send_ack: false, %s);', 'f.server_message(send_ack: false, %s);', 'f.client_segment(%s);', 'f.server_segment(%s);'])}[kind]
        lets, ops = [], []
        for _ in range(2 + r.below(6)):
            b = b'' if r.chance(1, 3) else pick_bytes(r, 200)
            ops.append((r.choice(calls) % (spell(r, b, lets) if b or r.chance(1, 2) else '""'), b))
        src = (HEAD + '\n'.join(lets) + '\n' + decl + '\n' + '\n'.join(o[0] for o in ops) + '\n').encode('utf-8')
        impl, model = progdiff.run_both(c, src)
        progdiff.compare(c, src, impl, model, 'payload:flow-history', project=lambda f, h=hdr: f[h:], times=False)
        if impl['outcome'][0] == 'success':
            recs = [x[1][hdr:] for x in progdiff.pcap_records(impl['file'] or b'')]
            if recs != [o[1] for o in ops]:
                bad = [j for j, (g, o) in enumerate(zip(recs, ops)) if g != o[1]]
                c.violation('payload:flow-history:' + kind, 'call %s on a flow used before does not carry exactly its own bytes (%d calls, %d records)' % (ops[bad[0]][0][:80] if bad else '?', len(ops), len(recs)), dict(src=src.decode('utf-8')[:3000]))
            c.traces_validated += 1
        else:
            c.violation('payload:rejected', 'flow-history: %s' % (impl['outcome'],), dict(src=src.decode('utf-8')[:3000]))
        c.count('flow-history:' + kind)
        c.case(('hist', i), dict(kind='flow-history', flow=kind, lens=[len(o[1]) for o in ops]) if i % 6 == 0 else None)
    # join helpers with empty parts in every position (leading, middle, trailing, all empty)
    import itertools
    for n in (1, 2, 3, 4):
        for shape in itertools.product([b'', b'x', b'ab'], repeat=n):
            for fn, sep in (('text::crlflines', b'\r\n'), ('text::concat', b'')):
                want = sep.join(shape)
                args = ', '.join('"%s"' % p.decode() if r_ % 2 or p else '"||"' for r_, p in enumerate(shape))
                src = (HEAD + 'eth::frame("|000000000001|", "|000000000002|", %s(%s));\n' % (fn, args)).encode()
                impl, model = progdiff.run_both(c, src)
                progdiff.compare(c, src, impl, model, 'join')
                if impl['outcome'][0] != 'success' or progdiff.pcap_records(impl['file'])[0][1][14:] != want:
                    c.violation('payload:join', '%s(%s) does not join its parts in order' % (fn, args), dict(src=src.decode()))
                c.case(('join', fn, shape), dict(kind='join', fn=fn, parts=[p.decode() for p in shape]) if n == 3 and shape[0] == b'' and shape[1] == b'x' else None)
    # ... and with parts that are, end in or start with (pieces of) the separator itself: a join adds one separator between two parts,
    # whatever the parts hold
    def jl(p_): return '"%s"' % p_.decode() if p_ and all(32 <= x < 127 and x not in (34, 124) for x in p_) else ('"|%s|"' % p_.hex() if p_ else '""')
    SEPISH = [b'', b'x', b'a\r\n', b'\r\n', b'\r', b'\n', b'\r\nb']
    for n in (2, 3):
        for shape in itertools.product(SEPISH, repeat=n):
            for fn, sep in (('text::crlflines', b'\r\n'), ('text::concat', b'')):
                want = sep.join(shape)
                args = ', '.join(('text::CRLF' if p_ == b'\r\n' and (k + n) % 2 else jl(p_)) for k, p_ in enumerate(shape))
                src = (HEAD + 'eth::frame("|000000000001|", "|000000000002|", %s(%s));\n' % (fn, args)).encode()
                impl, model = progdiff.run_both(c, src)
                progdiff.compare(c, src, impl, model, 'join')
                if impl['outcome'][0] != 'success' or progdiff.pcap_records(impl['file'])[0][1][14:] != want:
                    c.violation('payload:join', '%s(%s) does not join its parts in order with one separator between two parts' % (fn, args), dict(src=src.decode()))
        c.case(('join-sepish', n), dict(kind='join-separator-like-parts', n=n))
    # every single byte value, in text form where possible and hex form always
    for v in range(256):
        forms = ['"|%02x|"' % v]
        if v in TEXT_OK: forms.append('"%s"' % chr(v))
        for f in forms:
            src = (HEAD + 'eth::frame("|000000000001|", "|000000000002|", %s);\n' % f).encode()
            impl, model = progdiff.run_both(c, src)
            progdiff.compare(c, src, impl, model, 'byte')
            if impl['outcome'][0] != 'success' or progdiff.pcap_records(impl['file'])[0][1][14:] != bytes([v]):
                c.violation('payload:byte-value', 'byte value %d spelled %s does not arrive' % (v, f), dict(src=src.decode()))
        c.case(('byte', v), None)
    # buffered reads
    for i in range(40 if c.quick else 1000):
        r = c.rng.fork('bufio%d' % i)
        data = r.bytes(r.choice([0, 1, 5, 40, 300]))
        reads = [r.choice([0, 1, 2, 7, 100, r.below(50)]) for _ in range(r.below(8))]
        lines = [HEAD, 'let b = io::bufio("|%s|");' % data.hex() if data else 'let b = io::bufio();']
        for k in reads: lines.append('eth::frame("|000000000001|", "|000000000002|", b.read(%d));' % k)
        if i % 2:
            # the same reads, several to a call (in one argument list, nested in a join helper): still consecutive slices, in the
            # order they are written
            lines = lines[:2]; j = 0; groups = []
            while j < len(reads):
                g = reads[j:j + 1 + r.below(3)]; j += len(g); groups.append(g)
                call = ', '.join('b.read(%d)' % k for k in g)
                lines.append('eth::frame("|000000000001|", "|000000000002|", %s);' % (call if r.chance(1, 2) else 'text::concat(%s)' % call))
        lines.append('eth::frame("|000000000001|", "|000000000002|", b.read_all());')
        lines.append('eth::frame("|000000000001|", "|000000000002|", b.read_all(), b.read(3));')
        src = ('\n'.join(lines) + '\n').encode()
        impl, model = progdiff.run_both(c, src)
        progdiff.compare(c, src, impl, model, 'bufio')
        if impl['outcome'][0] == 'success':
            got = [x[1][14:] for x in progdiff.pcap_records(impl['file'])]
            if i % 2:
                # regroup: one record per call, holding the slices of its reads back to back
                flat, pos2 = [], 0
                for g in groups:
                    w = b''
                    for k in g: w += data[pos2:pos2 + k]; pos2 += len(data[pos2:pos2 + k])
                    flat.append(w)
                if got[:len(groups)] != flat:
                    c.violation('payload:bufio', 'several reads in one call do not hand out consecutive slices in the order written', dict(src=src.decode()[:2000]))
                got = [None] * len(reads) + got[len(groups):]
            pos, ok = 0, len(got) == len(reads) + 2
            for k, g in zip(reads, got):
                ok = ok and (g is None or g == data[pos:pos + k]); pos += len(data[pos:pos + k])
            ok = ok and got[len(reads)] == data[pos:] and got[-1] == b''
            if not ok:
                c.violation('payload:bufio', 'buffered reads do not hand out consecutive non-overlapping slices that add up to the buffer', dict(src=src.decode()[:2000]))
        else:
            c.violation('payload:bufio-failed', 'bufio program failed: %s' % (impl['outcome'],), dict(src=src.decode()[:2000]))
        c.case(('bufio', i), dict(kind='bufio', reads=reads, n=len(data)) if i % 10 == 0 else None)
    # characters that editors, terminals and text tools like to add, drop or normalise (byte order mark / zero-width no-break space,
    # zero-width space and joiners, soft hyphen, no-break space, line and paragraph separators, next line, bidi marks, the
    # replacement character, combining marks, an astral code point) at the start, in the middle and at the end of a text literal,
    # alone and next to a hex section: text contributes its source bytes
    for cp in (0xFEFF, 0x200B, 0x200C, 0x200D, 0x00AD, 0x00A0, 0x2028, 0x2029, 0x0085, 0x200E, 0x200F, 0x202E, 0xFFFD, 0x0301, 0x1F600, 0x2060, 0x180E, 0xFFFE, 0x00B7):
        ch = chr(cp)
        for k, (name, hdr, mk) in enumerate(BUILDERS):
            if k % 4 != cp % 4: continue
            for txt, want in ((ch + 'AB', None), ('A' + ch + 'B', None), ('AB' + ch, None), (ch, None), (ch + ch, None), ('A' + ch + '|41|' + ch, ('A' + ch).encode('utf-8') + b'A' + ch.encode('utf-8'))):
                want = want if want is not None else txt.encode('utf-8')
                decl, stmt = mk('"%s"' % txt, False)
                src = (HEAD + decl + '\n' + stmt + '\n').encode('utf-8')
                impl, model = progdiff.run_both(c, src)
                progdiff.compare(c, src, impl, model, 'payload:special-char', project=lambda f, h=hdr: f[h:], times=False)
                recs = progdiff.pcap_records(impl['file'] or b'')
                if impl['outcome'][0] != 'success' or len(recs) != 1 or recs[0][1][hdr:] != want:
                    c.violation('payload:special-char', 'U+%04X in a text literal (%s): the payload is not the source bytes of the literal (%s)' % (cp, name, (recs[0][1][hdr:].hex() if len(recs) == 1 else impl['outcome'][:3])), dict(src=src.decode('utf-8'), want=want.hex()))
        c.case(('special-char', cp), dict(kind='special-char', cp='U+%04X' % cp))
    # several buffers over EQUAL content (and one over other content), read in turn: each has its own cursor
    for i in range(16 if c.quick else 300):
        r = c.rng.fork('bufio2-%d' % i)
        data = r.bytes(r.choice([5, 36, 40, 300]))
        nb = 2 + r.below(2)
        datas = [data] * nb + [r.bytes(len(data))]
        lines = [HEAD] + ['let b%d = io::bufio("|%s|");' % (j, d.hex()) for j, d in enumerate(datas)]
        if r.chance(1, 2): lines.insert(2, 'eth::frame("|000000000001|", "|000000000002|", b0.read(0));')      # a use between the bindings
        pos = [0] * len(datas); want = []
        for _ in range(3 + r.below(10)):
            j = r.below(len(datas)); k = r.choice([0, 1, 2, 7, 10, r.below(50)])
            if r.chance(1, 6):
                lines.append('eth::frame("|000000000001|", "|000000000002|", b%d.read_all());' % j); want.append(datas[j][pos[j]:]); pos[j] = len(datas[j])
            else:
                lines.append('eth::frame("|000000000001|", "|000000000002|", b%d.read(%d));' % (j, k)); want.append(datas[j][pos[j]:pos[j] + k]); pos[j] = min(len(datas[j]), pos[j] + k)
        src = ('\n'.join(lines) + '\n').encode()
        impl, model = progdiff.run_both(c, src)
        progdiff.compare(c, src, impl, model, 'bufio-several')
        if impl['outcome'][0] == 'success':
            got = [x[1][14:] for x in progdiff.pcap_records(impl['file'])]
            if 'b0.read(0)' in lines[2]: got = got[1:]
            if got != want:
                c.violation('payload:bufio', 'with several buffers over equal content, the reads of one buffer are not consecutive slices of ITS content', dict(src=src.decode()[:3000]))
        else:
            c.violation('payload:bufio-failed', 'bufio program failed: %s' % (impl['outcome'],), dict(src=src.decode()[:2000]))
        c.case(('bufio2', i), dict(kind='bufio-several', buffers=len(datas)) if i % 5 == 0 else None)
    c.assumptions += ['the expected payload is the byte string chosen before it was spelled (ground truth by construction)',
                      'payload offsets are the fixed header lengths of each builder (Ethernet 14, IPv4 20, TCP 20, UDP 8, ICMP echo 8, VXLAN 8, GRE 4, TLS record 5)']


def replay(c, data):
    d = data.get('replay') or data['disagreements'][0]['request']
    impl, model = progdiff.run_both(c, d['src'].encode())
    progdiff.compare(c, d['src'].encode(), impl, model, 'replay')
