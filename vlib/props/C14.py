"""C14 — language semantics: single assignment, explicit imports, ordered evaluation."""
import re
from .. import core, progdiff
from ..gen import Lib, ProgGen

PROOF_MODULES = ['Resynth.Props.C14', 'Resynth.Props.C14Laws', 'Resynth.Props.C14Order', 'Resynth.Props.C14Heap']

RULE = ("type-directed random programs compiled by the real binary and the model, plus metamorphic variants of each: "
        "(a) a second let of an existing name appended -> MultipleAssign at that let; (b) a use of an unbound name / "
        "un-imported module inserted -> Name error there; (c) duplicated imports -> identical pcap; (d) every use of a "
        "let-bound literal inlined -> identical pcap; (e) stored packet values re-emitted in a random permutation with "
        "repetitions -> the corresponding permutation of records; (f) stateful reads inside one argument list "
        "(io::bufio) -> bytes in left-to-right order. Non-trivial = base program succeeds with >= 1 record; distinct = source hash")

LITLET = re.compile(r'^let (c\d+) = (.+);$')


def frames(res):
    return [x[1] for x in progdiff.pcap_records(res['pcap'] or b'')]


def campaign(c):
    c.rule = RULE
    lib = Lib()
    n = 90 if c.quick else 1500
    for i in range(n):
        r = c.rng.fork('c14-%d' % i)
        g = ProgGen(lib, r, max_stmts=10, payload_max=24)
        src = g.program()
        impl, model = progdiff.run_both(c, src)
        progdiff.compare(c, src, impl, model, 'prog')
        key = None
        text = src.decode()
        lines = text.split('\n')
        if impl['outcome'][0] == 'success':
            base = [x[1] for x in progdiff.pcap_records(impl['file'] or b'')]
            key = hash(src) if base else None
            rep = dict(src=text[:3000])
            # (a) rebind
            lets = [m.group(1) for m in (re.match(r'^let (\w+) =', l) for l in lines) if m]
            if lets:
                v = r.choice(lets)
                s2 = (text + 'let %s = 1;\n' % v).encode()
                res = core.run_cli(s2); o = core.classify_cli(res)
                want_line = text.count('\n') + 1
                if not (o[0] == 'failure' and o[1] == 'MultipleAssign' and o[2][0] == want_line):
                    c.violation('sem:rebind', 'a second let of %s was not rejected as MultipleAssign at line %d: %s' % (v, want_line, o), dict(src=s2.decode()[:3000]))
                c.count('meta:rebind')
            # (b) use before bind / import
            s2 = (text + 'zz_unbound_%d;\n' % i).encode()
            o = core.classify_cli(core.run_cli(s2))
            if not (o[0] == 'failure' and o[1] == 'Name'):
                c.violation('sem:unbound', 'use of an unbound name not rejected: %s' % (o,), dict(src=s2.decode()[:3000]))
            s2 = (text + 'notimported%d::thing(1);\n' % i).encode()
            o = core.classify_cli(core.run_cli(s2))
            if not (o[0] == 'failure' and o[1] == 'Name'):
                c.violation('sem:unimported', 'use of a module that was not imported not rejected: %s' % (o,), dict(src=s2.decode()[:3000]))
            c.count('meta:unbound')
            # use-before-let of an existing name: move a let-bound literal's first use above its let (only when it is used)
            # (c) duplicated imports
            imps = [l for l in lines if l.startswith('import ')]
            if imps:
                s2 = ('\n'.join(imps) + '\n' + text).encode()
                if frames(core.run_cli(s2)) != base:
                    c.violation('sem:reimport', 're-importing modules changed the output', dict(src=s2.decode()[:3000]))
                c.count('meta:reimport')
            # (d) inline let-bound literals
            lits = {}
            out = []
            for l in lines:
                m = LITLET.match(l)
                if m: lits[m.group(1)] = m.group(2)
                else:
                    for nme, val in lits.items():
                        l = re.sub(r'(?<![\w.:])%s(?![\w(.])' % nme, val, l)
                out.append(l)
            if lits:
                s2 = '\n'.join(l for l in out).encode()
                # keep the lets too (they are harmless) so that only the uses change
                def subst(l):
                    # only outside string literals (a name may occur as text inside one)
                    parts = re.split(r'("[^"]*")', l)
                    return ''.join(p if p.startswith('"') else re.sub(r'(?<![\w.:])(%s)(?![\w(.])' % '|'.join(lits), lambda m: lits[m.group(1)], p) for p in parts)
                s2 = '\n'.join(subst(l) if not LITLET.match(l) else l for l in lines).encode()
                res = core.run_cli(s2)
                if core.classify_cli(res)[0] != 'success' or frames(res) != base:
                    c.violation('sem:inline', 'inlining let-bound literals changed the output', dict(src=s2.decode()[:3000], orig=text[:3000]))
                c.count('meta:inline')
            # (e) permutation of stored packet values
            pk = [m.group(1) for m in (re.match(r'^let (p\d+) =', l) for l in lines) if m]
            if pk:
                # frames of each stored value: emit it alone at the end
                per = {}
                for v in pk:
                    per[v] = frames(core.run_cli((text + v + ';\n').encode()))[len(base):]
                order = [r.choice(pk) for _ in range(1 + r.below(5))]
                s2 = (text + ''.join(v + ';\n' for v in order)).encode()
                got = frames(core.run_cli(s2))[len(base):]
                want = [f for v in order for f in per[v]]
                if got != want:
                    c.violation('sem:reemit', 're-emitting stored packets %s did not write exactly their frames in that order' % order, dict(src=s2.decode()[:3000]))
                c.count('meta:reemit')
        c.count('outcome:' + impl['outcome'][0])
        c.case(key, dict(src=text[:400]) if key else None)
    # inlining a let-bound plain value defined by a library constant (narrow integer types, byte strings) or a literal
    consts = [x for x in lib.consts]
    for i in range(40 if c.quick else 600):
        r = c.rng.fork('inl%d' % i)
        k = r.choice(consts)
        defs = r.choice([k['path'], k['path'], '5', '0x1ff', '1.2.3.4', '"ab|00|"', 'true'])
        use = r.choice(['eth::frame("|000000000001|", "|000000000002|", %s);', 'eth::frame("|000000000001|", "|000000000002|", text::concat("x", %s, %s));',
                        'eth::frame("|000000000001|", "|000000000002|", std::be32(%s));' if defs[0] not in '"1' or defs == '5' else 'eth::frame("|000000000001|", "|000000000002|", %s);',
                        'eth::frame("|000000000001|", "|000000000002|", text::len(%s));'])
        if defs == 'true': use = 'eth::frame("|000000000001|", "|000000000002|", std::be16(%s));'
        imp = 'import eth;\nimport text;\nimport std;\nimport %s;\n' % k['path'].split('::')[0]
        bound = (imp + 'let v = %s;\n' % defs + use.replace('%s', 'v') + '\n').encode()
        inl = (imp + use.replace('%s', defs) + '\n').encode()
        ib, mb = progdiff.run_both(c, bound); progdiff.compare(c, bound, ib, mb, 'inline-bound')
        ii, mi = progdiff.run_both(c, inl); progdiff.compare(c, inl, ii, mi, 'inline-inlined')
        if ib['outcome'][0] != ii['outcome'][0] or (ib['outcome'][0] == 'success' and [x[1] for x in progdiff.pcap_records(ib['file'])] != [x[1] for x in progdiff.pcap_records(ii['file'])]):
            c.violation('sem:inline-const', 'replacing a use of a let-bound plain value (%s) by its defining expression changes the output' % defs, dict(src=bound.decode(), inlined=inl.decode()))
        c.case(('inl', defs, use), dict(kind='inline-const', defs=defs) if i % 10 == 0 else None)
    # a name is not usable inside its own let, nor before it
    SELF = ['let x = x;', 'let x = x.y;', 'let x = x();', 'let m = f.client_message(seq: m, "hello");\nm;', 'let m = f.client_ack(ack: m);\nm;',
            'let b = ipv4::udp::broadcast(1.2.3.4:1, 5.6.7.8:2, srcip: b, "x");\nb;', 'let t = text::concat("a", t);', 'let q = text::len(q);',
            'y;\nlet y = 1;', 'let z = text::concat(w);\nlet w = "a";', 'let g = f.open();\nlet g = f.open();', 'text::concat(later);\nlet later = "x";']
    for sn in SELF:
        src = ('import ipv4;\nimport text;\nlet f = ipv4::tcp::flow(1.2.3.4:1, 5.6.7.8:2);\n' + sn + '\n').encode()
        impl, model = progdiff.run_both(c, src)
        progdiff.compare(c, src, impl, model, 'selfref')
        if impl['outcome'][0] != 'failure' or impl['outcome'][1] not in ('Name', 'MultipleAssign'):
            c.violation('sem:self-reference', 'a name was usable inside or before its own let: %s -> %s' % (sn.replace('\n', ' '), impl['outcome'],), dict(src=src.decode()))
        c.case(('self', sn), dict(kind='selfref', stmt=sn))
    # (f0) evaluation stops at the FIRST faulty operand in source order: what stands to the right of it is never looked at, so a
    #      second fault there changes nothing (class and position of the diagnostic are those of the run with the left fault alone)
    FAULTS = ['undef_a', 'undef_b.member', 'nosuchmod::x', 'text::concat(true)', 'text::nosuch("a")', 'b.read("x")', 'text::concat(undef_c)', 'b.nosuch']
    SLOTS = [('L / R', '1.2.3.4', '80'), ('let z = L / R', '1.2.3.4', '80'), ('text::concat(L, R)', '"a"', '"b"'), ('text::concat(L, "m", R)', '"a"', '"b"'),
             ('text::concat(text::concat(L), R)', '"a"', '"b"'), ('ipv4::udp::unicast(L / 5, 1.2.3.4 / R, "x")', '1.2.3.4', '80'),
             ('ipv4::udp::unicast(1.2.3.4 / L, R / 9, "x")', '80', '1.2.3.4'), ('ipv4::udp::unicast(dst: 1.2.3.4 / L, src: R / 9, "x")', '80', '1.2.3.4'),
             ('let z = b.read(L, R)', '1', '2'), ('eth::frame("|000000000001|", "|000000000002|", L / R)', '1.2.3.4', '80')]
    pre = 'import ipv4;\nimport text;\nimport io;\nimport eth;\nlet b = io::bufio("abcdef");\n'
    for si, (tmpl, okl, okr) in enumerate(SLOTS):
        for fl in FAULTS:
            def fill(l, r_): return (pre + tmpl.replace('L', '\x00').replace('R', r_).replace('\x00', l) + ';\n').encode()
            alone = fill(fl, okr)
            ia, ma = progdiff.run_both(c, alone)
            progdiff.compare(c, alone, ia, ma, 'fault-order')
            for fr in FAULTS:
                if fr == fl and c.quick: continue
                both = fill(fl, fr)
                ib, mb = progdiff.run_both(c, both)
                progdiff.compare(c, both, ib, mb, 'fault-order')
                if ia['outcome'][0] == 'failure' and ib['outcome'][:3] != ia['outcome'][:3]:
                    c.violation('sem:fault-order', 'a fault to the RIGHT of the first faulty operand changes the diagnostic: %s alone -> %s, with %s behind it -> %s'
                                % (fl, ia['outcome'][:3], fr, ib['outcome'][:3]), dict(src=both.decode(), alone=alone.decode()))
            c.case(('fault-order', si, fl), dict(kind='fault-order', template=tmpl, left=fl, outcome=str(ia['outcome'][:3])) if si % 3 == 0 else None)
    # (f1) two objects built by the same constructor call are two objects: the second one starts fresh, whatever the first has
    #      been through (bound before or after the first is used)
    TWINS = [('ipv4::tcp::flow(1.2.3.4:5, 6.7.8.9:80)', 'X.client_message("abc")'), ('ipv4::icmp::flow(1.2.3.4, 6.7.8.9)', 'X.echo("abc")'),
             ('erspan2::session(1.2.3.4, 6.7.8.9)', 'X.encap(eth::frame("|000000000001|", "|000000000002|"))'), ('gre::session(1.2.3.4, 6.7.8.9, 0x6558)', 'X.encap(eth::frame("|000000000001|", "|000000000002|"))'),
             ('io::bufio("abcdefgh")', 'eth::frame("|000000000001|", "|000000000002|", X.read(3))'), ('ipv4::udp::flow(1.2.3.4:5, 6.7.8.9:80)', 'X.client_dgram("abc")'),
             ('vxlan::session(1.2.3.4:5, 6.7.8.9:4789)', 'X.encap(eth::frame("|000000000001|", "|000000000002|"))'), ('ipv4::frag(1.2.3.4, 6.7.8.9, "0123456789abcdef")', 'X.fragment(0, 1)')]
    pre2 = 'import ipv4;\nimport eth;\nimport io;\nimport erspan2;\nimport gre;\nimport vxlan;\n'
    for ctor, use in TWINS:
        fresh = core.run_cli((pre2 + 'let a = %s;\n%s;\n' % (ctor, use.replace('X', 'a'))).encode())
        f0 = [x[1] for x in progdiff.pcap_records(fresh['pcap'] or b'')]
        for shape in ('let a = C;\nlet b = C;\nUA;\nUA;\nUB;\n', 'let a = C;\nUA;\nUA;\nlet b = C;\nUB;\n', 'let a = C;\nlet b = C;\nlet c = C;\nUA;\nUC;\nUA;\nUB;\n'):
            src = (pre2 + shape.replace('UA', use.replace('X', 'a')).replace('UB', use.replace('X', 'b')).replace('UC', use.replace('X', 'c')).replace('= C;', '= ' + ctor + ';')).encode()
            impl, model = progdiff.run_both(c, src)
            progdiff.compare(c, src, impl, model, 'twin-objects')
            recs = [x[1] for x in progdiff.pcap_records(impl['file'] or b'')]
            if impl['outcome'][0] != 'success' or not f0 or recs[-len(f0):] != f0:
                c.violation('sem:twin-objects', 'an object built by the same constructor call as an earlier one does not start fresh (%s)' % ctor, dict(src=src.decode()))
        c.case(('twin', ctor), dict(kind='twin-objects', ctor=ctor))
    # (f2) emitting a stored packet sequence through its name is the same as emitting it where it was computed: the same records
    #      with the same timestamps (`E;` against `let x = E; x;`, also with a second name for the value and a second emission)
    GENS = ['f.open()', 'f.client_message("abc")', 'f.server_message("0123456789")', 'f.client_close()', 'dns::host(1.2.3.4, "a.example", 10.0.0.1, 10.0.0.2)',
            'vx.encap(f.open())', 'g.encap(f.client_message("xyz"))', 'f.client_message(send_ack: false, "one packet")', 'u.client_dgram("abc")']
    pre3 = 'import ipv4;\nimport dns;\nimport vxlan;\nimport gre;\nlet f = ipv4::tcp::flow(1.2.3.4:5, 6.7.8.9:80);\nlet u = ipv4::udp::flow(1.2.3.4:5, 6.7.8.9:53);\nlet vx = vxlan::session(1.1.1.1:1, 2.2.2.2:4789);\nlet g = gre::session(1.1.1.1, 2.2.2.2, 0x6558);\nu.server_dgram("before");\n'
    for e in GENS:
        direct = core.run_cli((pre3 + e + ';\nu.server_dgram("after");\n').encode())
        for shape in ('let x = E;\nx;\n', 'let x = E;\nlet y = x;\ny;\n', 'let x = E;\nlet y = x;\nx;\n'):
            src = (pre3 + shape.replace('E', e) + 'u.server_dgram("after");\n').encode()
            impl, model = progdiff.run_both(c, src)
            progdiff.compare(c, src, impl, model, 'stored-emission')
            if impl['outcome'][0] != 'success' or impl['file'] != direct['pcap']:
                A, B = progdiff.pcap_records(direct['pcap'] or b''), progdiff.pcap_records(impl['file'] or b'')
                what = 'timestamps' if [x[1] for x in A] == [x[1] for x in B] else 'records'
                c.violation('sem:stored-emission', 'emitting a stored value by name gives other %s than emitting the expression itself (%s)' % (what, e), dict(src=src.decode(), times_direct=[x[0] for x in A][:8], times_stored=[x[0] for x in B][:8]))
        c.case(('stored-emission', e), dict(kind='stored-emission', expr=e))
    # (f3) a binding whose value is void (the hole functions return nothing) is a binding like any other: usable later, any
    #      number of times, as a statement, as the value of another let; emitting it emits nothing
    for vtmpl in ('let gap = t.client_hole(100);\ngap;\ngap;\nt.client_message("after");\n', 'let gap = t.server_hole(7);\nlet g2 = gap;\ng2;\ngap;\nt.server_message("after");\n',
                  't.client_message("before");\nlet gap = t.client_hole(1);\nt.client_message("mid");\ngap;\nt.client_message("after");\n'):
        direct = vtmpl
        for nm in ('gap', 'g2'):
            direct = '\n'.join(l for l in direct.split('\n') if l.strip() not in (nm + ';',) and not l.startswith('let g2'))
        direct = direct.replace('let gap = ', '')
        pre5 = 'import ipv4;\nlet t = ipv4::tcp::flow(1.2.3.4:1, 5.6.7.8:2);\n'
        rd = core.run_cli((pre5 + direct).encode())
        src = (pre5 + vtmpl).encode()
        impl, model = progdiff.run_both(c, src)
        progdiff.compare(c, src, impl, model, 'void-binding')
        if impl['outcome'][0] != 'success' or impl['file'] != rd['pcap']:
            c.violation('sem:void-binding', 'a name bound to a void value is not usable like any other binding: %s (direct spelling: %s)' % (impl['outcome'][:3], core.classify_cli(rd)[:1]), dict(src=src.decode()))
        c.case(('void-binding', vtmpl[:30]), dict(kind='void-binding'))
    # (f) left-to-right evaluation with a stateful buffer
    for i in range(20 if c.quick else 300):
        r = c.rng.fork('ord%d' % i)
        data = r.bytes(8 + r.below(20))
        ks = [r.below(4) if r.chance(4, 5) else None for _ in range(2 + r.below(5))]      # None: read_all() in the middle of the history
        reads = ', '.join('b.read(%d)' % k if k is not None else 'b.read_all()' for k in ks)
        src = ('import io;\nimport eth;\nimport text;\nlet b = io::bufio("|%s|");\n'
               'let x = text::concat(%s, "|ff|", b.read_all());\neth::frame("|000000000001|", "|000000000002|", x);\n' % (data.hex(), reads)).encode()
        impl, model = progdiff.run_both(c, src)
        progdiff.compare(c, src, impl, model, 'order')
        if impl['outcome'][0] == 'success':
            f = [x[1] for x in progdiff.pcap_records(impl['file'])]
            pos, want = 0, b''
            for k in ks:           # a cursor that only moves forward: each read hands out the next bytes, read_all the rest
                take = len(data) - pos if k is None else min(k, len(data) - pos)
                want += data[pos:pos + take]; pos += take
            want = want + b'\xff' + data[pos:]
            if len(f) != 1 or f[0][14:] != want:
                c.violation('sem:arg-order', 'arguments were not evaluated left to right exactly once', dict(src=src.decode()))
        c.case(('ord', i), dict(kind='order', src=src.decode()[:300]))
    # (f4) the same for calls that mix `name: value` and unnamed arguments: keyword arguments are evaluated where they are
    #      written, not before or after the unnamed ones. Oracle (independent of what the callee does with its parameters): the
    #      call with every operand hoisted into a let, in source order, writes the same file
    KW = [('tls::client_hello(%s)', ['sessionid', 'ciphers', 'compression'], True, 'wrap'), ('eth::frame(%s)', ['dst', 'src'], True, 'pkt'),
          ('dhcp::hdr(%s)', ['chaddr', 'sname', 'file'], False, 'wrap'), ('tls::server_hello(%s)', ['sessionid'], True, 'wrap')]
    for i in range(24 if c.quick else 300):
        r = c.rng.fork('kword%d' % i)
        tmpl, names, tail_ok, kind = KW[i % len(KW)]
        data = r.bytes(40 + r.below(20))
        kws = [n for n in names if r.chance(3, 4)] or names[:1]
        if tmpl.startswith('eth::frame'): kws = list(names)
        if r.chance(1, 2): kws.reverse()
        ops = [(n, 6 if n in ('dst', 'src', 'chaddr') else 2 * (1 + r.below(3))) for n in kws] + ([(None, 1 + r.below(5)) for _ in range(1 + r.below(3))] if tail_ok else [])
        inline = ', '.join(('%s: b.read(%d)' % (n, k)) if n else 'b.read(%d)' % k for n, k in ops)
        hoist = ''.join('let h%d = b.read(%d);\n' % (j, k) for j, (n, k) in enumerate(ops))
        hargs = ', '.join(('%s: h%d' % (n, j)) if n else 'h%d' % j for j, (n, k) in enumerate(ops))
        pre6 = 'import io;\nimport eth;\nimport tls;\nimport dhcp;\nlet b = io::bufio("|%s|");\n' % data.hex()
        def stmt(a):
            e = tmpl % a
            return (e if kind == 'pkt' else 'eth::frame("|000000000001|", "|000000000002|", %s, b.read_all())' % e) + ';\n'
        src = (pre6 + stmt(inline)).encode()
        ref = core.run_cli((pre6 + hoist + stmt(hargs)).encode())
        impl, model = progdiff.run_both(c, src)
        progdiff.compare(c, src, impl, model, 'kw-order')
        if core.classify_cli(ref)[0] == 'success':
            c.count('kw-order-case')
            if impl['outcome'][0] != 'success' or impl['file'] != ref['pcap']:
                c.violation('sem:kw-arg-order', 'a call mixing named and unnamed arguments does not evaluate them left to right: hoisting the operands into lets in source order changes the output',
                            dict(src=src.decode(), hoisted=(pre6 + hoist + stmt(hargs))))
        c.case(('kw-order', i), dict(kind='kw-order', call=tmpl % inline))
    # (i) the spelling of a bound name is irrelevant (alpha-renaming): templates with deferred emission, re-binding and use,
    #     instantiated with identifiers of every shape the lexer accepts, behave exactly as with a plain name
    templates = [('deferred', 'import ipv4;\nlet t = ipv4::tcp::flow(1.2.3.4:1, 5.6.7.8:2);\nlet NAME = t.client_message("abc");\nt.server_message("x");\nNAME;\nNAME;\n'),
                 ('rebind', 'import eth;\nlet NAME = eth::frame("|000000000001|", "|000000000002|");\nNAME;\nlet NAME = 2;\n'),
                 ('use', 'import eth;\nimport std;\nlet NAME = 7;\neth::frame("|000000000001|", "|000000000002|", std::be64(NAME));\nlet other = NAME;\neth::frame("|000000000001|", "|000000000002|", std::be64(other));\n'),
                 ('unused', 'import eth;\nlet NAME = eth::frame("|000000000001|", "|000000000002|", "never emitted");\neth::frame("|000000000001|", "|000000000002|");\n'),
                 # a plain value passed without a name to functions that collect their tail (and have optional parameters): it is a
                 # piece of the payload whatever the variable is called
                 ('tail', 'import ipv4;\nimport eth;\nimport dns;\nlet t = ipv4::tcp::flow(1.2.3.4:1, 5.6.7.8:2);\nlet u = ipv4::udp::flow(1.2.3.4:1, 5.6.7.8:2);\nlet NAME = 300;\n'
                          't.client_message(NAME);\nt.server_message("x", NAME);\nu.client_dgram(NAME, "y");\nipv4::datagram(1.2.3.4, 5.6.7.8, NAME);\neth::frame("|000000000001|", "|000000000002|", NAME);\n'
                          'u.server_dgram(dns::answer(dns::name("a"), NAME));\nipv4::udp::unicast(1.2.3.4:1, 5.6.7.8:2, NAME);\n')]
    for tname, tmpl in templates:
        ref = core.run_cli(tmpl.replace('NAME', 'keep').encode())
        ro = core.classify_cli(ref)
        pnames = sorted(set(a['name'] for f in lib.funcs for a in f['args']))          # every parameter name of the library is an ordinary identifier
        for ident in ['_', '__', '_a', '_1', 'a_', 'A', 'Z_9', 'lets', 'importer', 'true_', 'falsey', 'x' * 200, 'keep2', 'e', 'l0', 'ipv4x', 'eth_'] + (pnames if tname in ('tail', 'use') else pnames[::5]):
            src = tmpl.replace('NAME', ident).encode()
            impl, model = progdiff.run_both(c, src)
            progdiff.compare(c, src, impl, model, 'alpha')
            if impl['outcome'][:2] != ro[:2] or impl['file'] != ref['pcap']:
                c.violation('sem:alpha-renaming', 'template %s behaves differently when the bound name is spelled `%s`: %s vs %s' % (tname, ident[:20], impl['outcome'], ro), dict(src=src.decode()[:2000]))
            c.case(('alpha', tname, ident), dict(kind='alpha', template=tname, ident=ident[:20]) if ident in ('_', 'A') else None)
    # (h) variables and modules live in separate namespaces (the shipped examples rely on it: `import dns; let dns = flow`):
    #     a let of a module's name placed before or after that module's import must not disturb either
    tops = {}
    for sdef in lib.consts:
        if sdef['def']['type'] in ('U8', 'U16', 'U32', 'U64'): tops.setdefault(sdef['path'].split('::')[0], sdef['path'])
    for mod, cpath in sorted(tops.items()):
        outs = []
        for order in (['import %s;' % mod, 'let %s = 7;' % mod], ['let %s = 7;' % mod, 'import %s;' % mod], ['import %s;' % mod, 'let %s = 7;' % mod, 'import %s;' % mod]):
            src = ('import eth;\nimport std;\n' + '\n'.join(order) + '\neth::frame("|000000000001|", "|000000000002|", std::be64(%s), std::be64(%s));\n' % (mod, cpath)).encode()
            impl, model = progdiff.run_both(c, src)
            progdiff.compare(c, src, impl, model, 'namespace')
            outs.append((impl['outcome'], impl['file']))
            if impl['outcome'][0] != 'success':
                c.violation('sem:namespace', 'module %s is not usable after its import when a variable of the same name exists: %s' % (mod, impl['outcome'],), dict(src=src.decode()))
        if len(set(o[1] for o in outs)) != 1:
            c.violation('sem:namespace-order', 'the order of `import %s` and `let %s` changes the output' % (mod, mod), dict(src=src.decode()))
        c.case(('namespace', mod), dict(kind='namespace', module=mod))
    # ... and every real module is unusable before (or without) its own import, whatever else has been imported
    allmods = sorted(set(p.split('::')[0] for p in lib.syms if '::' in p))
    for mod in allmods:
        others = ''.join('import %s;\n' % m for m in allmods if m != mod)
        refs = [sd['path'] for sd in lib.consts if sd['path'].split('::')[0] == mod][:1] + [f['path'] for f in lib.free_funcs if f['path'].split('::')[0] == mod][:1]
        for ref in refs:
            # ... also when the import follows on the SAME line, or opens the next line together with another statement
            for srcb in (('let x = %s;\n' % ref), (others + 'let x = %s;\n' % ref), ('let x = %s;\nimport %s;\n' % (ref, mod)), (others + '%s;\n' % ref),
                         ('let x = %s; import %s; let y = 1;\n' % (ref, mod)), (others + '%s; import %s; let y = 1;\n' % (ref, mod)), ('let y = 1; let x = %s;\nimport %s; let z = 2;\n' % (ref, mod)),
                         ('let x = %s; import %s;' % (ref, mod))):
                im, mo = progdiff.run_both(c, srcb.encode())
                progdiff.compare(c, srcb.encode(), im, mo, 'unimported')
                if not (im['outcome'][0] == 'failure' and im['outcome'][1] == 'Name'):
                    c.violation('sem:unimported', 'module %s is usable without (before) `import %s`: %s' % (mod, mod, im['outcome'],), dict(src=srcb)); break
        c.case(('unimported', mod), None)
    # (g) scale: many bindings, each a different value, used in reverse order, re-emitted; many statements; the k-th name must
    #     still denote the k-th value (names around 2^8 and, in the thorough tier, 2^16 bindings)
    for n in ([255, 256, 257, 1000] if c.quick else [255, 256, 257, 4096, 65535, 65536, 65537]):
        L = ['import eth;', 'import std;']
        for k in range(n): L.append('let v%d = std::be32(%d);' % (k, k * 2654435761 % 2 ** 32))
        use = [n - 1, 0, 1, 254, 255, 256, n // 2, n - 2] + [(k * 7919) % n for k in range(40)]
        for k in use:
            if 0 <= k < n: L.append('eth::frame("|000000000001|", "|000000000002|", v%d, std::be32(%d));' % (k, k))
        L.append('let p = eth::frame("|000000000001|", "|000000000002|", v%d);' % (n - 1)); L += ['p;'] * 3
        src = ('\n'.join(L) + '\n').encode()
        impl, model = progdiff.run_both(c, src)
        progdiff.compare(c, src, impl, model, 'scale')
        if impl['outcome'][0] != 'success':
            c.violation('sem:scale', 'a program with %d bindings was not compiled: %s' % (n, impl['outcome'],), dict(n=n, src=src.decode()[:400000]))
        else:
            for fr in [x[1] for x in progdiff.pcap_records(impl['file'])][:-3]:
                k = int.from_bytes(fr[18:22], 'big')
                if fr[14:18] != (k * 2654435761 % 2 ** 32).to_bytes(4, 'big'):
                    c.violation('sem:scale-binding', 'with %d bindings, v%d does not denote the value bound to it' % (n, k), dict(n=n, k=k, src=src.decode()[:400000])); break
        c.case(('scale', n), dict(kind='scale', bindings=n))
    c.assumptions += ['metamorphic relations are judged on the real binary\'s output; the theorems cover all programs on the model side']


def replay(c, data):
    d = data.get('replay') or data['disagreements'][0]['request']
    impl, model = progdiff.run_both(c, d['src'].encode())
    progdiff.compare(c, d['src'].encode(), impl, model, 'replay')
