"""C13 — compilation is deterministic and self-contained."""
import hashlib, os, re, shutil, subprocess, tempfile
from .. import core, progdiff
from ..gen import Lib, ProgGen

PROOF_MODULES = ['Resynth.Props.C13', 'Resynth.Props.C13Layout']

RULE = ("generated programs (valid and failing) compiled by the real binary repeatedly under varied TZ/LANG/LC_ALL/HOME/"
        "cwd/output directory, alone and inside batches in different orders; outputs (sha256 of pcap, normalised "
        "diagnostics, exit status) must be identical to each other and to the model; text-level variants (comments, blank "
        "lines, edge/inter-token whitespace incl. Unicode spaces, unused literal lets) must give the same pcap; a syscall "
        "audit (strace) lists every ambient read; a source scan checks that the three HashMaps are never iterated. "
        "Non-trivial = program writes >= 1 record or fails with a positioned diagnostic; distinct = source hash")

ENVS = [dict(TZ='UTC', LANG='C'), dict(TZ='Asia/Tokyo', LANG='ja_JP.UTF-8', LC_ALL='ja_JP.UTF-8'), dict(TZ='America/New_York', LANG='en_US.UTF-8', HOME='/nonexistent'),
        dict(LANG='tr_TR.UTF-8', LC_ALL='tr_TR.UTF-8', TZ=':/etc/localtime', COLUMNS='1', TERM='dumb', NO_COLOR='1')]


def norm(out, paths):
    for p in paths: out = out.replace(p, '<P>')
    return re.sub(r'/[^\s:]*?/(\w+)\.(rsyn|pcap)', r'<D>/\1.\2', out)


def run_at(src_by_name, order, env, cwd, outdir):
    """compile the named sources in one invocation; returns {name: (pcap sha or None)}, stdout(normalised), rc"""
    d = tempfile.mkdtemp(prefix='rsd')
    try:
        ind = os.path.join(d, 'i'); os.mkdir(ind)
        od = os.path.join(d, outdir); os.makedirs(od, exist_ok=True)
        paths = []
        for n in order:
            p = os.path.join(ind, n + '.rsyn'); open(p, 'wb').write(src_by_name[n]); paths.append(p)
        e = dict(PATH=os.environ.get('PATH', '/usr/bin:/bin')); e.update(env)
        p = subprocess.run([core.CLI, '--out-dir', od] + paths, capture_output=True, cwd=cwd or d, env=e, timeout=120)
        res = {}
        for n in order:
            f = os.path.join(od, n + '.pcap')
            res[n] = hashlib.sha256(open(f, 'rb').read()).hexdigest() if os.path.exists(f) else None
        per = {}
        out = p.stdout.decode('utf-8', 'replace')
        for n in order:
            per[n] = sorted(l.replace(d, '<T>') for l in out.splitlines() if ('/' + n + '.rsyn') in l)
        per['__all__'] = [l.replace(d, '<T>') for l in out.splitlines()]
        return res, per, p.returncode, p.stderr.decode('utf-8', 'replace')
    finally:
        shutil.rmtree(d, ignore_errors=True)


def variants(r, text):
    """text-level edits that must not change the output"""
    lines = text.split('\n')
    out = []
    for l in lines:
        k = r.below(8)
        if k == 0: out.append('')
        if k == 1: out.append(r.choice(['# a comment', '// another', '\t  # x "unterminated', '   ', ' 　', '// let q = 1;']))
        if l.strip() and k == 2: l = r.choice(['  ', '\t', ' ', '   ']) + l
        if l.strip() and k == 3: l = l + r.choice(['  ', '\t', ' # trailing', ' // trailing "q"'])
        if k == 4 and l.strip(): l = l.replace(', ', ' ,\t ').replace('(', ' ( ', 1) if '"' not in l and '|' not in l else l
        out.append(l)
        if k == 5 and l.rstrip().endswith(';'): out.append('let unused_%d = %s;' % (len(out), r.choice(['5', '0x10', 'true', '1.2.3.4', '"s|00|"', '9.9.9.9:53'])))
    return '\n'.join(out)


def reflow(c, r, text):
    """Newlines are whitespace: break the lines of a program before randomly chosen tokens, and split plain string literals
    into adjacent literals one per line (the layout of examples/ssh.rsyn). Token positions come from the real lexer, so a
    break is never placed inside a token."""
    out = []
    for l in text.split('\n'):
        if not l.strip() or '#' in l or '//' in l:
            out.append(l); continue
        # split string literals without hex sections: "abcd" -> "ab" NEWLINE "cd"
        def split_lit(m):
            body = m.group(1)
            if '|' in body or len(body) < 2 or not r.chance(1, 2): return m.group(0)
            k = 1 + r.below(len(body) - 1)
            return '"%s"\n%s"%s"' % (body[:k], r.choice(['', '  ', '\t']), body[k:])
        resp = c.harness.ask('lexlines ' + core.sh_hex(l.encode('utf-8')))
        cols = []
        for t in resp.split(' | ')[0].split(' ')[1:]:
            f = t.split(':')
            if len(f) == 4 and f[0] != 'str': cols.append(int(f[2]) - 1)
        b = l.encode('utf-8')
        cut = sorted(set(x for x in cols if x > 0 and r.chance(1, 3)), reverse=True)
        for x in cut:
            b = b[:x] + b'\n' + b[x:]
        l2 = re.sub(r'"([^"\n]*)"', split_lit, b.decode('utf-8'))
        out.append(l2)
    return '\n'.join(out)


def source_scan(c):
    """the only hidden input of the binary is the HashMap hasher seed; harmless iff the maps are never iterated"""
    bad = []
    ALLOWED = ('insert', 'get', 'get_mut', 'contains_key', 'remove', 'len', 'is_empty', 'shrink_to_fit', 'clone', 'entry', 'with_capacity', 'reserve')
    files = [os.path.join(dp, f) for d in (core.REPO + '/src', core.REPO + '/pkt/src', core.REPO + '/ezpkt/src') for dp, _, fs in os.walk(d) for f in fs if f.endswith('.rs')]
    for f in files:
        txt = open(f).read()
        # every binding of hash-map type in this file: fields, parameters (by value or reference), locals
        maps = set(re.findall(r'\b(\w+)\s*:\s*&?\s*(?:mut\s+)?(?:std::collections::)?HashMap\s*<', txt)) | set(re.findall(r'let\s+(?:mut\s+)?(\w+)(?:\s*:[^=;]*)?=\s*(?:std::collections::)?HashMap::', txt))
        for m in sorted(maps):
            for mm in re.finditer(r'\b%s\s*\.\s*(\w+)' % re.escape(m), txt):
                if mm.group(1) not in ALLOWED:
                    bad.append('%s: %s.%s' % (os.path.relpath(f, core.REPO), m, mm.group(1)))
            for mm in re.finditer(r'for\s+[^\n]*\s+in\s+(?:&\s*(?:mut\s+)?)?(?:self\.)?%s\b' % re.escape(m), txt):
                bad.append('%s: iteration over %s' % (os.path.relpath(f, core.REPO), m))
    all_src = ''.join(open(os.path.join(dp, f)).read() for dp, _, fs in os.walk(core.REPO + '/src') for f in fs if f.endswith('.rs'))
    all_src += ''.join(open(os.path.join(dp, f)).read() for d in (core.REPO + '/pkt/src', core.REPO + '/ezpkt/src') for dp, _, fs in os.walk(d) for f in fs if f.endswith('.rs'))
    uses = re.findall(r'\b(SystemTime|Instant::now|std::env::|env::var|process::id|thread_rng|rand::|getpid|current_dir)\b', all_src)
    nmaps = len(re.findall(r'HashMap\s*<', all_src))
    c.extra['source_scan'] = dict(hashmaps=nmaps, ambient_api_uses=sorted(set(uses)), bad_map_uses=bad)
    if bad or uses:
        c.tie_broken('tie', 'source scan: hash-map iteration or ambient API use found (%s %s, %d HashMap types)' % (bad, sorted(set(uses)), nmaps))


def strace_audit(c):
    if not shutil.which('strace'):
        c.extra['strace'] = 'unavailable'; return
    d = tempfile.mkdtemp(prefix='rss')
    try:
        src = b'import ipv4;\nlet f = ipv4::tcp::flow(1.2.3.4:1, 5.6.7.8:2);\nf.open();\nf.client_message("x");\n'
        p = os.path.join(d, 'a.rsyn'); open(p, 'wb').write(src)
        r = subprocess.run(['strace', '-f', '-o', os.path.join(d, 'tr'), core.CLI, '--out-dir', d, p], capture_output=True, timeout=60)
        calls = {}
        amb = []
        for l in open(os.path.join(d, 'tr'), errors='replace'):
            m = re.match(r'\d+\s+(\w+)\(', l)
            if not m: continue
            calls[m.group(1)] = calls.get(m.group(1), 0) + 1
            if m.group(1) in ('clock_gettime', 'gettimeofday', 'time', 'getpid', 'getuid', 'getcwd', 'uname', 'gethostname', 'getppid'):
                amb.append(l.strip()[:120])
        c.extra['strace'] = dict(syscalls=calls, ambient=amb[:10], getrandom=calls.get('getrandom', 0))
        if amb:
            c.tie_broken('tie', 'syscall audit: the binary reads ambient state: %s' % amb[:3])
    finally:
        shutil.rmtree(d, ignore_errors=True)


def campaign(c):
    c.rule = RULE
    source_scan(c)
    strace_audit(c)
    lib = Lib()
    n = 40 if c.quick else 600
    progs = {}
    for i in range(n):
        r = c.rng.fork('c13-%d' % i)
        g = ProgGen(lib, r, max_stmts=8, payload_max=30)
        src = g.program()
        if r.chance(1, 6):
            from ..gen import mutate
            src = mutate(src, r)
        name = 'p%d' % i
        progs[name] = src
        impl, model = progdiff.run_both(c, src, name=name)
        progdiff.compare(c, src, impl, model, 'prog')
        base_sha = hashlib.sha256(impl['file']).hexdigest() if impl['file'] is not None else None
        base_out = sorted(l for l in impl['stdout'].splitlines() if name + '.rsyn' in l)
        rep = dict(src=src.decode('utf-8', 'replace')[:3000])
        # environments / cwd / output directory / repetition
        for j, env in enumerate(ENVS if not c.quick else ENVS[:3]):
            res, per, rc, err = run_at({name: src}, [name], env, '/' if j % 2 else None, ['o', 'deep/er/out', '.'][j % 3])
            if res[name] != base_sha or rc != impl['rc']:
                c.violation('det:env', 'output differs under environment %s' % env, rep)
            strip = lambda l: re.sub(r'\S*/(\w+\.(?:rsyn|pcap))', r'\1', l)
            o2 = [strip(l) for l in per[name]]
            b2 = [strip(l) for l in base_out]
            if sorted(o2) != sorted(b2):
                c.violation('det:diagnostics', 'diagnostics differ under environment %s: %s vs %s' % (env, o2[:2], b2[:2]), rep)
        # the very same command line (absolute input and output paths) started from different working directories: every byte of
        # what is printed, and the exit status, is the same
        if i % 3 == 0:
            d = tempfile.mkdtemp(prefix='rsw')
            try:
                os.makedirs(os.path.join(d, 'in')); os.makedirs(os.path.join(d, 'out', 'sub'))
                ip_ = os.path.join(d, 'in', name + '.rsyn'); open(ip_, 'wb').write(src)
                outs = []
                for argv, cwds in (([core.CLI, '--out-dir', os.path.join(d, 'out'), ip_], [d, '/', os.path.join(d, 'out'), os.path.join(d, 'in'), os.path.join(d, 'out', 'sub')]),
                                   ([core.CLI, '-o', os.path.join(d, 'out', 'x.pcap'), ip_], [d, '/', os.path.join(d, 'out')])):
                    seen = []
                    for cw in cwds:
                        pr = subprocess.run(argv, capture_output=True, cwd=cw, env=dict(PATH='/usr/bin:/bin'), timeout=120)
                        seen.append((pr.returncode, pr.stdout))
                    if len(set(seen)) != 1:
                        k = [x != seen[0] for x in seen].index(True)
                        c.violation('det:cwd', 'the same command line prints something else when started from another directory: %r vs %r'
                                    % (seen[0][1][-160:].decode('utf-8', 'replace').replace(d, '<T>'), seen[k][1][-160:].decode('utf-8', 'replace').replace(d, '<T>')), dict(rep, cwd=cwds[k].replace(d, '<T>'), args=[a.replace(d, '<T>') for a in argv[1:]]))
                c.count('cwd-variants')
                # ... and under every console option, from different environments (variables that programs commonly consult for
                # colour, terminal type, locale, logging): an explicit option is never overridden by the environment
                ENV2 = [dict(), dict(NO_COLOR='1'), dict(CLICOLOR_FORCE='1', CLICOLOR='0', FORCE_COLOR='3'), dict(TERM='dumb'), dict(TERM='xterm-256color', COLORTERM='truecolor', NO_COLOR=''),
                        dict(RUST_BACKTRACE='1', RUST_LOG='trace', LANG='tr_TR.UTF-8', LC_ALL='tr_TR.UTF-8', COLUMNS='7', LINES='1')]
                for flags in (['--color', 'always'], ['--color', 'ansi'], ['--color', 'never'], ['--color', 'auto'], ['-v'], ['-v', '--color', 'always'], ['-k', '--color', 'ansi']):
                    argv = [core.CLI] + flags + ['-o', os.path.join(d, 'out', 'y.pcap'), ip_]
                    seen = []
                    for e2 in ENV2:
                        pr = subprocess.run(argv, capture_output=True, cwd=d, env=dict(PATH='/usr/bin:/bin', **e2), timeout=120)
                        f2 = os.path.join(d, 'out', 'y.pcap')
                        seen.append((pr.returncode, pr.stdout, open(f2, 'rb').read() if os.path.exists(f2) else None))
                        if os.path.exists(f2): os.remove(f2)
                    if len(set(seen)) != 1:
                        k = [x != seen[0] for x in seen].index(True)
                        c.violation('det:env-option', 'with %s the result depends on the environment (%s): %r vs %r' % (' '.join(flags), ENV2[k], seen[0][1][-120:].decode('utf-8', 'replace').replace(d, '<T>'), seen[k][1][-120:].decode('utf-8', 'replace').replace(d, '<T>')),
                                    dict(rep, flags=flags, env=ENV2[k]))
                c.count('env-option-variants')
                # ... and whatever characters the output path is spelled with (separators of option syntaxes, quotes, blanks, dashes,
                # non-ASCII): same exit status, same file, same report apart from the path itself
                base_run = None
                for oname in ('plain', 'with,comma', 'a,b,c', 'with space', 'with=equals', 'semi;colon', 'co:lon', '-dash', '--ddash', "quo'te", 'dou"ble', 'star*', 'que?ry', 'br[ack]et', 'h#ash', 'per%cent', 'am&p', 'pi|pe', 'd\u00fcr'):
                    od2 = os.path.join(d, 'o2', oname); os.makedirs(od2, exist_ok=True)
                    for fname in ('out.pcap', oname + '.pcap'):
                        outp = os.path.join(od2, fname)
                        pr = subprocess.run([core.CLI, '-o', outp, ip_], capture_output=True, cwd=d, env=dict(PATH='/usr/bin:/bin'), timeout=120)
                        got = (pr.returncode, pr.stdout.decode('utf-8', 'replace').replace(outp, '<OUT>'), open(outp, 'rb').read() if os.path.exists(outp) else None)
                        if base_run is None: base_run = got
                        elif got != base_run:
                            c.violation('det:output-path', 'the result depends on how the output path is spelled (%r): exit %s vs %s, %r' % (os.path.join(oname, fname), got[0], base_run[0], (pr.stderr or pr.stdout)[-120:].decode('utf-8', 'replace').replace(d, '<T>')), dict(rep, outname=os.path.join(oname, fname)))
                c.count('output-path-spellings')
            finally:
                shutil.rmtree(d, ignore_errors=True)
        # text-level variants
        if impl['outcome'][0] == 'success' and b'"' not in src.replace(b'"|', b'').replace(b'|"', b'') or True:
            try:
                v = variants(r, src.decode('utf-8')).encode('utf-8')
            except UnicodeDecodeError:
                v = None
            if v is not None and impl['outcome'][0] == 'success':
                res = core.run_cli(v)
                if res['pcap'] != impl['file']:
                    c.violation('det:text', 'inserting comments/blank lines/whitespace/unused literal lets changed the output', dict(src=v.decode()[:3000], orig=rep['src']))
                im2, mo2 = progdiff.run_both(c, v)
                progdiff.compare(c, v, im2, mo2, 'variant')
                c.count('text-variants')
            # the same program laid out over several lines per statement, adjacent string literals one per line; then the
            # text-level edits again on that layout (blank / comment lines now fall inside statements and between literals)
            if impl['outcome'][0] == 'success':
                try:
                    rf = reflow(c, r, src.decode('utf-8'))
                except UnicodeDecodeError:
                    rf = None
                if rf is not None:
                    from ..gen import join_lines
                    joined = join_lines(src, r, (2, 3)).decode('utf-8')
                    for what, txt in (('reflow', rf), ('reflow+edits', variants(r, rf)), ('reflow+blank-lines', '\n\n'.join(rf.split('\n'))), ('joined-lines', joined),
                                      ('no-final-newline', src.decode('utf-8').rstrip('\n')), ('crlf', src.decode('utf-8').replace('\n', '\r\n'))):
                        if what == 'reflow+edits':
                            im3, mo3 = progdiff.run_both(c, txt.encode('utf-8'))
                            progdiff.compare(c, txt.encode('utf-8'), im3, mo3, 'layout-variant')
                            res = dict(pcap=im3['file'])
                        else:
                            res = core.run_cli(txt.encode('utf-8'))
                        if res['pcap'] != impl['file']:
                            c.violation('det:layout:' + what, 'laying the program out over more lines (%s) changed the output' % what, dict(src=txt[:3000], orig=rep['src']))
                        c.count('layout-variants')
        key = hash(src) if (impl['file'] and len(impl['file']) > 24) or (impl['outcome'][0] == 'failure' and impl['outcome'][2] != (0, 0)) else None
        c.count('outcome:' + impl['outcome'][0])
        c.case(key, dict(src=rep['src'][:300], outcome=str(impl['outcome'])) if key else None)
        progs[name] = (src, base_sha, impl['rc'])
    # diagnostics (warnings included) of programs that discard a value of every kind: two runs must print the same text
    discard = ('import ipv4;\nimport text;\nimport std;\nimport io;\nlet f = ipv4::tcp::flow(1.2.3.4:1, 5.6.7.8:2);\nlet u = ipv4::udp::flow(1.2.3.4:1, 5.6.7.8:2);\n'
               'ipv4::tcp::flow;\nf.open;\nf;\nu;\ntext::concat("a", "|ff|");\nstd::be16;\n5;\n'.replace('\n5;\n', '\n')) + 'text::len("x");\n1.2.3.4;\nlet b = io::bufio("q");\nb;\nb.read;\n'
    outs = []
    for env in ENVS[:2] + ENVS[:1]:
        res, per, rc, err = run_at({'w': discard.encode()}, ['w'], env, None, 'o')
        outs.append(([re.sub(r'\S*/(\w+\.(?:rsyn|pcap))', r'\1', l) for l in per['w']], rc))
    for o in outs[1:]:
        if o != outs[0]:
            diff = [a for a, b in zip(outs[0][0], o[0]) if a != b][:1]
            c.violation('det:warning-text', 'the warnings printed for discarded values differ from run to run: %s' % (diff[0][:160] if diff else o[1]), dict(src=discard))
            break
    c.case(('discard',), dict(kind='discarded-values', lines=len(outs[0][0])))
    # failing programs with a rich environment (many names sharing prefixes, many imports): the diagnostics of near-miss
    # references (unbound prefix of several variables, unknown module / member / named argument) must be the same on every run
    pre = 'import ipv4;\nimport dns;\nimport eth;\nimport text;\nimport std;\n' + ''.join('let conn%d = ipv4::tcp::flow(1.2.3.%d:1, 5.6.7.8:2);\n' % (k, k) for k in range(1, 9)) + \
          ''.join('let v%s = %d;\n' % (x, k) for k, x in enumerate('abcdefgh'))
    for bad in ['conn.client_message("x");', 'v;', 'conn1.client_mess("x");', 'ipv4::tc::flow(1.2.3.4:1, 5.6.7.8:2);', 'dn::host(1.2.3.4, "a");',
                'ipv4::tcp::flow(1.2.3.4:1, 5.6.7.8:2, cl_se: 5);', 'let conn3 = 1;', 'import et;', 'text::conca("a");', 'conn1.x.y;', 'std::be16(va, vb, vc);']:
        srcb = (pre + bad + '\n').encode()
        outs = set()
        for k in range(8):
            res, per, rc, err = run_at({'d': srcb}, ['d'], ENVS[k % len(ENVS)], None, 'o')
            lines = tuple(re.sub(r'\S*/(\w+\.(?:rsyn|pcap))', r'\1', l) for l in per['__all__'])    # everything printed, not only the lines naming the file
            outs.add((rc, lines, res['d']))
        if len(outs) != 1:
            c.violation('det:diagnostics-vary', 'the same failing program produced %d different outcomes/diagnostics over 8 runs: %s' % (len(outs), sorted(str(o[1])[:120] for o in outs)[:3]), dict(src=srcb.decode()))
        im, mo = progdiff.run_both(c, srcb)
        progdiff.compare(c, srcb, im, mo, 'diag-stability')
        c.case(('diagstab', bad), dict(kind='diag-stability', stmt=bad))
    # every reference shape (module / class / function / constant / variable in every position of a path or member chain): the
    # message printed for it may not contain anything that changes from run to run (addresses, hash order)
    from .C08 import REFSHAPES, REF_PRELUDE
    for shape in REFSHAPES + ['ipv4::IpFrag::tail(0);', 'ipv4::tcp::TcpFlow::open();', 'io::BufIO::read(1);', 'ipv4::datagram::x;', 'text::CRLF::x;', 'eth::frame::y();', 'ipv4::tcp::flow::z;']:
        srcb = (REF_PRELUDE + shape + '\n').encode()
        outs = set()
        for k in range(3):
            res, per, rc, err = run_at({'d': srcb}, ['d'], ENVS[k % len(ENVS)], None, 'o')
            outs.add((rc, tuple(re.sub(r'\S*/(\w+\.(?:rsyn|pcap))', r'\1', l) for l in per['__all__']), res['d'], 'panicked' in err))
        if len(outs) != 1:
            c.violation('det:diagnostics-vary', 'reference shape `%s`: %d different outcomes/diagnostics over 3 runs: %s' % (shape, len(outs), sorted(str(o[1])[:140] for o in outs)[:2]), dict(src=srcb.decode()))
        c.case(('refdiag', shape), None)
    # the output must not depend on what was at the output path before: longer stale file, same-stem batch
    d = tempfile.mkdtemp(prefix='rso')
    try:
        big = b'import eth;\n' + b'eth::frame("|000000000001|", "|000000000002|", "0123456789012345678901234567890123456789");\n' * 8
        small = b'import eth;\neth::frame("|000000000001|", "|000000000002|", "x");\n'
        ref = core.run_cli(small, name='s')['pcap']
        os.makedirs(os.path.join(d, 'a')); os.makedirs(os.path.join(d, 'b')); os.makedirs(os.path.join(d, 'o'))
        open(os.path.join(d, 'a', 's.rsyn'), 'wb').write(big); open(os.path.join(d, 'b', 's.rsyn'), 'wb').write(small)
        subprocess.run([core.CLI, '--out-dir', os.path.join(d, 'o'), os.path.join(d, 'a', 's.rsyn')], capture_output=True, timeout=60)
        subprocess.run([core.CLI, '--out-dir', os.path.join(d, 'o'), os.path.join(d, 'b', 's.rsyn')], capture_output=True, timeout=60)
        got = open(os.path.join(d, 'o', 's.pcap'), 'rb').read()
        if got != ref:
            c.violation('det:stale-output', 'compiling over an existing longer output file leaves %d stale bytes behind (result depends on which run it is)' % (len(got) - len(ref)), dict(src=small.decode()))
        os.remove(os.path.join(d, 'o', 's.pcap'))
        subprocess.run([core.CLI, '--out-dir', os.path.join(d, 'o'), os.path.join(d, 'a', 's.rsyn'), os.path.join(d, 'b', 's.rsyn')], capture_output=True, timeout=60)
        got = open(os.path.join(d, 'o', 's.pcap'), 'rb').read()
        if got != ref:
            c.violation('det:stale-output-batch', 'two inputs mapped to the same output in one batch: the second result depends on the first', dict(src=small.decode()))
        c.case(('stale',), dict(kind='stale-output'))
    finally:
        shutil.rmtree(d, ignore_errors=True)
    # every kind of stateful object in each of two files: alone vs batch in both orders
    body = ('import ipv4;\nimport gre;\nimport erspan2;\nimport vxlan;\nimport io;\nimport eth;\nimport dns;\n'
            'let i = ipv4::icmp::flow(1.2.3.%d, 5.6.7.8);\ni.echo("a");\ni.echo_reply("a");\ni.echo("b");\n'
            'let t = ipv4::tcp::flow(1.2.3.%d:1, 5.6.7.8:2);\nt.open();\nt.client_message("x");\n'
            'let g = gre::session(1.1.1.%d, 2.2.2.2, 0x6558);\nlet e = erspan2::session(1.1.1.%d, 2.2.2.2);\n'
            'e.encap(g.encap(t.client_message("y")));\ne.encap(i.echo("c"));\ndns::host(9.9.9.%d, "a.b");\n'
            'let b = io::bufio("abcdef");\neth::frame("|000000000001|", "|000000000002|", b.read(2), b.read(2));\n')
    files = {'sa': (body % (1, 1, 1, 1, 1)).encode(), 'sb': (body % (2, 2, 2, 2, 2)).encode(), 'sc': (body % (3, 3, 3, 3, 3)).encode()}
    alone = {}
    for nme, srcb in files.items():
        res, per, rc, err = run_at({nme: srcb}, [nme], ENVS[0], None, 'o'); alone[nme] = res[nme]
    for order in (['sa', 'sb', 'sc'], ['sc', 'sb', 'sa'], ['sb', 'sa']):
        res, per, rc, err = run_at(files, order, ENVS[1], None, 'o')
        for nme in order:
            if res[nme] != alone[nme]:
                c.violation('det:batch-state', 'the output of %s.rsyn depends on the files compiled before it in the same invocation (%s)' % (nme, order), dict(src=files[nme].decode()))
        c.case(('batch-state', tuple(order)), dict(kind='batch-state', order=order))
    # a file that fails at every stage and in every state of its front end (mid-statement, a string literal pending in the
    # lexer, a statement half parsed, an interpreter error with more tokens buffered), followed by good files: each good file
    # must come out exactly as when it is compiled alone
    from .. import batch
    goodsrc = b'import eth;\neth::frame("|000000000001|", "|000000000002|", "a" "b"\n "c");\n'
    alone = batch.run_real([dict(stem='g', src=goodsrc)])
    for j, bad in enumerate([b'x("a"\n@\n', b'import eth;\neth::frame("|00|",\n"abc"\n@);\n', b'import eth;\neth::frame("|00|", "|00|"); x("lit"\n);\n', b'let a = (\n', b'f(1,\n',
                             b'import eth;\nlet z = eth::frame("|000000000001|", "|000000000002|",\n"pending"\n', b'"only a literal"\n\xff\n', b'let s = "q"\n"r"\nnosuch;\n',
                             b'import nosuch;\n', b'let a = 1; let a = 2; "x"\n',
                             # run-time failures inside library functions, with and without further arguments still unconsumed
                             b'import eth;\neth::frame("|00|", "|00|", "payload", "more");\n', b'import eth;\neth::frame("|000000000001|", "|00|", 5, 1.2.3.4);\n',
                             b'import netbios;\nimport eth;\neth::frame("|000000000001|", "|000000000002|", netbios::name::encode("SIXTEEN-BYTES-XX", "y"));\n',
                             b'import io;\nimport eth;\neth::frame("|000000000001|", "|000000000002|", io::file("absent.bin"), "tail");\n',
                             b'import time;\ntime::jump_seconds(18446744073709551615);\ntime::jump_seconds(5);\n',
                             b'import ipv4;\nipv4::udp::unicast(1.2.3.4:1, 5.6.7.8/70000, "x");\n', b'import text;\ntext::concat(text::concat, "x");\n']):
        for order in ([dict(stem='bad', src=bad), dict(stem='g', src=goodsrc), dict(stem='g2', src=goodsrc)], [dict(stem='g', src=goodsrc), dict(stem='bad', src=bad), dict(stem='g2', src=goodsrc)]):
            impl, model = batch.compare(c, order, what='batch-after-failure')
            for nme in ('g', 'g2'):
                if impl['dir'].get(nme) != alone['dir'].get('g'):
                    c.violation('det:batch-after-failure', 'a file compiled after a failing one differs from the same file compiled alone (failing member %d: %r)' % (j, bad[:40]),
                                dict(src=goodsrc.decode(), bad=bad.decode('utf-8', 'replace'), out=impl['stdout'][-300:]))
        c.case(('after-failure', j), dict(kind='batch-after-failure', bad=bad.decode('utf-8', 'replace')))
    # ... and members that fail before (or without) an output file: an input that does not exist, an input that is a directory, a
    # path without a file name - first, in the middle, twice in a row
    for j, badm in enumerate([dict(stem='missing', src=None), dict(stem='adir', src=None, isdir=True), dict(stem=None, src=None)]):
        for order in ([badm, dict(stem='g', src=goodsrc), dict(stem='g2', src=goodsrc)], [dict(stem='g', src=goodsrc), badm, dict(stem='g2', src=goodsrc)],
                      [badm, dict(badm), dict(stem='g', src=goodsrc), dict(stem='g2', src=goodsrc)]):
            for keep in (False, True):
                impl, model = batch.compare(c, order, keep=keep, what='batch-after-failure')
                for nme in ('g', 'g2'):
                    if impl['dir'].get(nme) != alone['dir'].get('g'):
                        c.violation('det:batch-after-failure', 'a file compiled after a member without an output differs from the same file compiled alone (member: %s%s)' % (badm, ', -k' if keep else ''),
                                    dict(src=goodsrc.decode(), out=impl['stdout'][-300:]))
        c.case(('after-failure-no-output', j), dict(kind='batch-after-failure', member=str(badm)))
    # names of data files are paths, not shell words: `~`, `$VAR`, `%VAR%`, globs in an io::file name are taken literally, so the
    # result cannot depend on HOME or any other variable
    dd = tempfile.mkdtemp(prefix='rsenv')
    try:
        for sub, fname in (('~', 'payload.bin'), ('$HOME', 'payload.bin'), ('%TMP%', 'payload.bin'), ('${HOME}', 'p.bin'), ('a*', 'p.bin'), ('.', '~payload.bin')):
            os.makedirs(os.path.join(dd, 'cwd', sub), exist_ok=True)
            open(os.path.join(dd, 'cwd', sub, fname), 'wb').write(b'from-the-working-directory')
            for k in (1, 2):
                os.makedirs(os.path.join(dd, 'home%d' % k), exist_ok=True)
                open(os.path.join(dd, 'home%d' % k, fname), 'wb').write(b'from-home-%d' % k)
            prog = ('import io;\nimport eth;\neth::frame("|000000000001|", "|000000000002|", io::file("%s/%s"));\n' % (sub, fname)).encode()
            open(os.path.join(dd, 'cwd', 'p.rsyn'), 'wb').write(prog)
            seen = []
            for e2 in (dict(HOME=os.path.join(dd, 'home1'), TMP=os.path.join(dd, 'home1')), dict(HOME=os.path.join(dd, 'home2'), TMP=os.path.join(dd, 'home2')), dict(), dict(HOME='/nonexistent'), dict(HOME='')):
                pr = subprocess.run([core.CLI, '-o', os.path.join(dd, 'o.pcap'), 'p.rsyn'], capture_output=True, cwd=os.path.join(dd, 'cwd'), env=dict(PATH='/usr/bin:/bin', **e2), timeout=60)
                f2 = os.path.join(dd, 'o.pcap')
                seen.append((pr.returncode, pr.stdout, open(f2, 'rb').read() if os.path.exists(f2) else None))
                if os.path.exists(f2): os.remove(f2)
            if len(set(seen)) != 1 or seen[0][0] != 0:
                c.violation('det:env-datafile', 'io::file("%s/%s") gives different results under different HOME / TMP values (or fails): exits %s' % (sub, fname, [x[0] for x in seen]), dict(src=prog.decode()))
            c.case(('env-datafile', sub), dict(kind='env-datafile', name=sub + '/' + fname))
    finally:
        shutil.rmtree(dd, ignore_errors=True)
    # batches: same files together, in two orders, with failing members
    names = list(progs)
    for b in range(6 if c.quick else 60):
        r = c.rng.fork('batch%d' % b)
        k = 2 + r.below(5)
        sel = [r.choice(names) for _ in range(k)]
        sel = list(dict.fromkeys(sel))
        for order in (sel, sel[::-1]):
            res, per, rc, err = run_at({n: progs[n][0] for n in sel}, order, ENVS[b % len(ENVS)], None, 'o')
            for nme in sel:
                if res[nme] != progs[nme][1]:
                    c.violation('det:batch', 'output of a file differs when compiled in a batch (%s)' % order, dict(src=progs[nme][0].decode('utf-8', 'replace')[:2000]))
            want_rc = 1 if any(progs[nme][2] != 0 for nme in sel) else 0
            if rc != want_rc:
                c.violation('det:batch-rc', 'batch exit status %d, expected %d' % (rc, want_rc), dict(files=order))
            if 'panicked' in err:
                c.violation('det:batch-panic', 'panic in batch run', dict(files=order))
        c.case(('batch', b), dict(kind='batch', n=len(sel)))
        c.count('batches')
    c.assumptions += ['independence from the environment is established by differential runs, a syscall audit and a source scan, not by a theorem (no executable model can quantify over "the environment")',
                      'faketime is not installed: the clock clause rests on the syscall audit showing no time call']


def replay(c, data):
    d = data.get('replay') or data['disagreements'][0]['request']
    impl, model = progdiff.run_both(c, d['src'].encode())
    progdiff.compare(c, d['src'].encode(), impl, model, 'replay')
