"""Type-directed generator of mostly-valid resynth programs, driven by the library dump
(the repo's own signature catalogue) — plus a malformed stream (mutations)."""
import json, os, re
from .core import VERIF, Rng

CLASS_OF = {  # constructor function -> class path (checked against the harness by the C08 campaign)
    'ipv4::tcp::flow': 'ipv4::tcp::TcpFlow', 'ipv4::udp::flow': 'ipv4::udp::UdpFlow',
    'ipv4::icmp::flow': 'ipv4::icmp::Icmp', 'ipv4::frag': 'ipv4::IpFrag', 'vxlan::session': 'vxlan::Vxlan',
    'gre::session': 'gre::Gre', 'erspan1::session': 'erspan1::Erspan1', 'erspan2::session': 'erspan2::Erspan2',
    'io::bufio': 'io::BufIO',
}
INTEGRAL = ('Bool', 'U8', 'U16', 'U32', 'U64')
STR_OK = ('Pkt', 'Str', 'U8', 'U16', 'U32', 'U64', 'Ip4')


def compatible(decl, other):
    return (decl == other or (decl in INTEGRAL and other in INTEGRAL) or (decl == 'Str' and other in STR_OK)
            or (decl == 'PktGen' and other in ('PktGen', 'Pkt')))


class Lib:
    def __init__(self, dump=None):
        if dump is None:
            dump = json.load(open(os.path.join(VERIF, 'work', 'libdump.json')))
        self.syms = {s['path']: s for s in dump['symbols']}
        self.funcs = [s for s in dump['symbols'] if s['kind'] == 'func']
        self.free_funcs = [f for f in self.funcs if '.' not in f['path']]
        self.methods = {}
        for f in self.funcs:
            if '.' in f['path']:
                cls, m = f['path'].split('.')
                self.methods.setdefault(cls, []).append(f)
        self.consts = [s for s in dump['symbols'] if s['kind'] == 'val']
        self.by_ret = {}
        for f in self.free_funcs:
            self.by_ret.setdefault(f['return_type'], []).append(f)


class ProgGen:
    """Generates one program. Tracks declared variables with their types / classes."""
    def __init__(self, lib, rng, max_stmts=12, payload_max=40, allow_files=False, weights=None):
        self.lib, self.r = lib, rng
        self.max_stmts = max_stmts
        self.payload_max = payload_max
        self.vars = []          # (name, type, class or None)
        self.imports = []
        self.lines = []
        self.counter = 0
        self.stats = {}
        self.files = {}
        self.allow_files = allow_files

    def stat(self, k):
        self.stats[k] = self.stats.get(k, 0) + 1

    # ---- literals
    def ip(self):
        r = self.r
        if r.chance(1, 8):
            return r.choice(['0.0.0.0', '255.255.255.255', '127.0.0.1', '10.0.0.1', '192.168.0.255'])
        return '%d.%d.%d.%d' % (r.below(256), r.below(256), r.below(256), r.below(256))
    def port(self):
        r = self.r
        return r.choice([0, 1, 53, 80, 443, 4789, 32768, 65535]) if r.chance(1, 3) else r.below(65536)
    def intlit(self, typ):
        r = self.r
        lim = {'Bool': 2, 'U8': 256, 'U16': 65536, 'U32': 2 ** 32, 'U64': 2 ** 64}[typ]
        k = r.below(6)
        if k == 0: v = 0
        elif k == 1: v = lim - 1
        elif k == 2: v = r.below(min(lim, 300))
        else: v = r.below(lim)
        if typ == 'Bool' and r.chance(3, 4):
            return 'true' if v else 'false'
        return ('0x%x' % v) if r.chance(1, 3) else str(v)
    def strlit(self, maxlen=None):
        r = self.r
        n = r.below((maxlen if maxlen is not None else self.payload_max) + 1)
        k = r.below(5)
        if k == 0:
            body = ''.join(r.choice('abcdefghijklmnopqrstuvwxyzABCXYZ0123456789 _-.,:;/=()[]{}<>!?@#$%^&*+~') for _ in range(n))
            return '"%s"' % body
        if k == 1:
            bs = r.bytes(n)
            sep = r.choice([' ', '', ':', '.', '-', '_'])
            return '"|%s|"' % sep.join('%02x' % b for b in bs)
        if k == 2:  # mixed
            a = ''.join(r.choice('GET /index.html HTTP1.0') for _ in range(n // 2))
            bs = r.bytes(n - n // 2)
            return '"%s|%s|"' % (a, ' '.join('%02X' % b for b in bs))
        if k == 3:  # adjacent literals
            return '%s %s' % (self.strlit(n // 2), self.strlit(n - n // 2))
        bs = r.bytes(n)
        return '"|%s|"' % ''.join('%02x' % b for b in bs)

    def literal(self, typ):
        r = self.r
        if typ in INTEGRAL: return self.intlit(typ)
        if typ == 'Ip4': return self.ip()
        if typ == 'Sock4':
            return '%s%s%s' % (self.ip(), r.choice([':', '/', ': ', ' / ']), self.port())
        if typ == 'Str': return self.strlit()
        return None

    # ---- expressions
    def need_import(self, path):
        top = path.split('::')[0]
        if top not in self.imports:
            self.imports.append(top)

    def var_of(self, typ):
        c = [v for v in self.vars if compatible(typ, v[1])]
        return self.r.choice(c)[0] if c else None

    def expr(self, typ, depth=0):
        """expression whose value is acceptable where `typ` is declared"""
        r = self.r
        k = r.below(10)
        if k < 2:
            v = self.var_of(typ)
            if v: self.stat('use_var'); return v
        if k < 5 and depth < 3:
            # helper call returning a compatible type
            cands = [f for t, fs in self.lib.by_ret.items() if compatible(typ, t) for f in fs
                     if f['path'] != 'io::file' or self.allow_files]
            if typ in ('Pkt', 'PktGen'):
                cands = cands + self.method_calls_returning(typ)
            if cands:
                f = r.choice(cands)
                if isinstance(f, tuple):
                    return self.method_call(*f, depth=depth + 1)
                return self.call(f, depth + 1)
        if k < 6:
            cs = [c for c in self.lib.consts if compatible(typ, c['def']['type'])]
            if cs:
                c = r.choice(cs); self.need_import(c['path']); self.stat('const'); return c['path']
        lit = self.literal(typ)
        if lit is not None: return lit
        if typ in ('Str',): return self.strlit()
        if typ in ('Pkt', 'PktGen'):
            v = self.var_of(typ)
            if v: return v
            return self.packet_expr(typ, depth)
        if typ == 'Obj':
            return self.call(r.choice([f for f in self.lib.free_funcs if f['return_type'] == 'Obj']), depth + 1)
        return self.strlit()

    def method_calls_returning(self, typ):
        out = []
        for (name, t, cls) in self.vars:
            if cls:
                for m in self.lib.methods.get(cls, []):
                    if compatible(typ, m['return_type']):
                        out.append((name, m))
        return out

    def packet_expr(self, typ, depth):
        r = self.r
        ms = self.method_calls_returning(typ)
        free = [f for f in self.lib.free_funcs if f['return_type'] in ('Pkt', 'PktGen') and compatible(typ, f['return_type'])]
        if depth >= 6:
            # packets made of packets (tunnel sessions, datagrams of frames) recurse through here: past this
            # depth only builders that take no packet are chosen, so generation always terminates
            def takes_pkt(f):
                return f['collect_type'] in ('Pkt', 'PktGen') or any(
                    a['kind'] == 'pos' and a['type'] in ('Pkt', 'PktGen') for a in f['args'])
            leaf = [f for f in free if not takes_pkt(f)]
            if leaf:
                self.stat('packet_leaf')
                return self.call(r.choice(leaf), depth + 1)
        if ms and r.chance(2, 3):
            return self.method_call(*r.choice(ms), depth=depth + 1)
        f = r.choice(free)
        return self.call(f, depth + 1)

    def args_for(self, f, depth):
        r = self.r
        out = []
        def pexpr(a):
            if f['path'] == 'eth::frame' and a['name'] in ('src', 'dst') and r.chance(15, 16):
                return '"|%s|"' % r.bytes(6).hex()
            return self.expr(a['type'], depth)
        for a in f['args']:
            if a['kind'] == 'pos':
                e = pexpr(a)
                out.append(('%s: %s' % (a['name'], e)) if r.chance(1, 6) else e)
        named_mode = any(':' in x.split('(')[0] and not x[0].isdigit() for x in out)
        # after a named positional all further positionals must be named: regenerate simply
        if named_mode:
            out = []
            for a in f['args']:
                if a['kind'] == 'pos':
                    out.append('%s: %s' % (a['name'], pexpr(a)))
        for a in f['args']:
            if a['kind'] == 'opt' and r.chance(1, 3):
                t = a['default']['type']
                if t == 'Type':
                    t = a['default']['value']
                if t == 'Void': continue
                out.append('%s: %s' % (a['name'], self.expr(t, depth)))
        if f['path'] == 'netbios::name::encode' and r.chance(7, 8):
            out.append('"%s"' % ''.join(r.choice('ABCDEFGHWORKGROUP-1') for _ in range(r.below(16))))
        elif f['collect_type'] != 'Void':
            for _ in range(r.below(4)):
                out.append(self.expr(f['collect_type'], depth))
        elif False:
            pass
        return out

    def call(self, f, depth=0):
        self.need_import(f['path'])
        self.stat('call:' + f['path'])
        args = self.args_for(f, depth)
        sep = ', ' if self.r.chance(3, 4) else ',\n    '
        tail = ',' if args and self.r.chance(1, 5) else ''
        return '%s(%s%s)' % (f['path'], sep.join(args), tail)

    def method_call(self, var, m, depth=0):
        self.stat('call:' + m['path'])
        args = self.args_for(m, depth)
        return '%s.%s(%s)' % (var, m['path'].split('.')[1], ', '.join(args))

    # ---- statements
    def fresh(self, prefix='v'):
        self.counter += 1
        return '%s%d' % (prefix, self.counter)

    def stmt(self):
        r = self.r
        k = r.below(20)
        if k < 4 or not any(v[2] for v in self.vars):
            f = r.choice([f for f in self.lib.free_funcs if f['return_type'] == 'Obj'])
            name = self.fresh('o')
            e = self.call(f)
            self.lines.append('let %s = %s;' % (name, e))
            self.vars.append((name, 'Obj', CLASS_OF.get(f['path'])))
            return
        if k < 6:
            typ = r.choice(['U64', 'Ip4', 'Sock4', 'Str', 'Bool'])
            name = self.fresh('c')
            self.lines.append('let %s = %s;' % (name, self.literal(typ)))
            self.vars.append((name, {'U64': 'U64'}.get(typ, typ), None))
            self.stat('let_literal')
            return
        if k < 8:
            typ = r.choice(['Pkt', 'PktGen'])
            name = self.fresh('p')
            self.lines.append('let %s = %s;' % (name, self.packet_expr(typ, 0)))
            self.vars.append((name, typ, None))
            self.stat('let_packet')
            return
        if k < 9:
            f = r.choice([f for f in self.lib.free_funcs if f['return_type'] == 'TimeJump'])
            self.need_import(f['path'])
            lim = {'time::jump_seconds': 100000, 'time::jump_millis': 10 ** 7, 'time::jump_micros': 10 ** 9, 'time::jump_nanos': 10 ** 11}[f['path']]
            self.lines.append('%s(%d);' % (f['path'], r.below(lim)))
            self.stat('jump')
            return
        if k < 11:
            v = [x for x in self.vars if x[1] in ('Pkt', 'PktGen')]
            if v:
                self.lines.append('%s;' % r.choice(v)[0]); self.stat('reemit'); return
        if k < 12:
            f = r.choice([f for f in self.lib.free_funcs if f['return_type'] in ('Str', 'U16', 'U64')])
            name = self.fresh('s')
            self.lines.append('let %s = %s;' % (name, self.call(f)))
            self.vars.append((name, f['return_type'], None))
            return
        # packet-emitting statement
        typ = r.choice(['Pkt', 'PktGen', 'PktGen'])
        e = self.packet_expr(typ, 0)
        if e[0].isalpha():
            self.lines.append('%s;' % e)
            self.stat('emit')

    def program(self):
        n = 1 + self.r.below(self.max_stmts)
        for _ in range(n):
            self.stmt()
        head = ['import %s;' % m for m in self.imports]
        if self.r.chance(1, 10) and head:
            head.append(head[0])  # harmless re-import
        body = []
        for ln in self.lines:
            if self.r.chance(1, 10): body.append('')
            if self.r.chance(1, 10): body.append(self.r.choice(['# comment', '// comment', '   # c "x" |ff|', '\t']))
            body.append(ln)
        r2 = self.r.fork('reimport')
        if head and body and r2.chance(1, 4):
            # a module imported again in the middle of the program (legal: a remark, nothing else changes)
            for _ in range(1 + r2.below(2)):
                body.insert(r2.below(len(body) + 1), r2.choice(head))
            self.stat('reimport-mid')
        emitting = [k for k, l in enumerate(body) if l.endswith(';') and not l.startswith(('let ', 'import ')) and '"' not in l]
        if emitting and r2.chance(1, 5):
            # a remark that contains a bare CR followed by text that would be a statement: a comment runs to the end of the LINE
            k = r2.choice(emitting)
            body.insert(r2.below(len(body) + 1), r2.choice(['// disabled for now:\r', '# old:\r', '\t#\r']) + body[k])
            self.stat('cr-in-remark')
        if emitting and r2.chance(1, 5):
            # a remark in non-ASCII text that ends in what would be a statement; as many multi-byte characters before it as the
            # statement has bytes (an offset kept in characters instead of bytes would resume exactly at the statement)
            k = r2.choice(emitting); st = body[k]
            ch = r2.choice(['é', '–', '日', '😀'])
            n = -(-len(st.encode()) // (len(ch.encode()) - 1))
            pad = ' ' * (n * (len(ch.encode()) - 1) - len(st.encode()))
            body.insert(r2.below(len(body) + 1), r2.choice(['# ', '// ']) + ch * n + ' disabled: ' + pad + st)
            self.stat('non-ascii-remark')
        return ('\n'.join(head + body) + '\n').encode()


def mutate(src, rng):
    """malformed stream: token/byte level damage to a valid program"""
    r = rng
    b = bytearray(src)
    if not b: return bytes(b)
    k = r.below(8)
    i = r.below(len(b))
    if k == 0: del b[i]
    elif k == 1: b.insert(i, r.choice(b'();:,./=" |-@\\\x00\xff\xc3'))
    elif k == 2: b[i] = r.below(256)
    elif k == 3:
        j = r.below(len(b)); b[i], b[j] = b[j], b[i]
    elif k == 4: b = b[:i]
    elif k == 5:
        j = min(len(b), i + 1 + r.below(8)); b = b[:i] + b[i:j] + b[i:j] + b[j:]
    elif k == 6:
        toks = bytes(b).split(b' ')
        if len(toks) > 1:
            j = r.below(len(toks)); del toks[j]
        b = bytearray(b' '.join(toks))
    else:
        words = [b'import', b'let', b'true', b'1.2.3.4:99999', b'18446744073709551616', b'256.1.1.1', b'0x', b'f(x:)', b'a.b.c.d', b'm::n.o.p(', b'"|f|"', b'"\xc3\xa9"']
        w = r.choice(words); b = b[:i] + b' ' + w + b' ' + b[i:]
    return bytes(b)


def join_lines(src, rng, p=(1, 2)):
    """Layout variant: put several statements on one source line (adjacent lines joined by a space with probability p).
    Lines with a comment marker are left alone (joining would swallow the next statement)."""
    try:
        lines = src.decode('utf-8').split('\n')
    except UnicodeDecodeError:
        return src
    out = []
    for l in lines:
        if out and l.strip() and out[-1].strip() and '#' not in out[-1] and '//' not in out[-1] and '#' not in l and '//' not in l and rng.chance(*p):
            out[-1] = out[-1] + ' ' + l
        else:
            out.append(l)
    return '\n'.join(out).encode('utf-8')


def _split_args(s):
    """split the text between the parentheses of a call at top-level commas (strings and nested parentheses respected)"""
    out, cur, depth, instr = [], '', 0, False
    for ch in s:
        if instr:
            cur += ch
            if ch == '"': instr = False
            continue
        if ch == '"': instr = True; cur += ch
        elif ch == '(': depth += 1; cur += ch
        elif ch == ')': depth -= 1; cur += ch
        elif ch == ',' and depth == 0: out.append(cur); cur = ''
        else: cur += ch
    if cur.strip(): out.append(cur)
    return out


_CALL_RE = re.compile(r'(?<![\w.:])([a-z_][a-z_0-9]*(?:::[a-z_][a-z_0-9]*)+|[a-z_][a-z_0-9]*\.[a-z_][a-z_0-9]*)\(')


def _lookup(lib, path):
    if '::' in path: return lib.syms.get(path)
    # a method call on a variable: usable when every class that has a method of this name declares the same mandatory names
    meth = path.split('.')[1]
    cands = [m for ms in lib.methods.values() for m in ms if m['path'].split('.')[1] == meth]
    sigs = set(tuple(a['name'] for a in m['args'] if a['kind'] == 'pos') for m in cands)
    return cands[0] if cands and len(sigs) == 1 else None
_NAMED_RE = re.compile(r'^\s*[A-Za-z_][A-Za-z_0-9]*\s*:(?!:)')


_DOCNAMES = {}


def doc_pos_names(f):
    """the mandatory parameter names of a function as the SHIPPED documentation (docs/ in the repository) prints them, in
    documented order - what a script author relies on; None when the page or the signature is not found"""
    from . import core
    path = f['path']
    if path in _DOCNAMES: return _DOCNAMES[path]
    if '.' in path: page = path.split('.')[0].replace('::', '/') + '.md'
    else:
        parts = path.split('::')[:-1]
        page = ('/'.join(parts) + '/README.md') if parts else 'README.md'
    names = None
    try:
        txt = open(os.path.join(core.REPO, 'docs', page), encoding='utf-8').read()
        m = re.search(r'resynth fn %s\s*\((.*?)\)\s*->' % re.escape(f['name']), txt, re.S)
        if m:
            names = []
            for ln in m.group(1).split('\n'):
                ln = ln.strip()
                if not ln or ln.startswith('=>') or ln.startswith('*') or '=' in ln: continue
                mm = re.match(r'([A-Za-z_][A-Za-z_0-9]*)\s*:', ln)
                if mm: names.append(mm.group(1))
    except OSError:
        pass
    _DOCNAMES[path] = names
    return names


_DOCRET = {}


def doc_return_type(f):
    """the return type of a function as the SHIPPED documentation prints it (`-> bytes`, `-> void`, `-> PktGen` ...), lower case;
    None when the page or the signature is not found"""
    from . import core
    path = f['path']
    if path in _DOCRET: return _DOCRET[path]
    if '.' in path: page = path.split('.')[0].replace('::', '/') + '.md'
    else:
        parts = path.split('::')[:-1]
        page = ('/'.join(parts) + '/README.md') if parts else 'README.md'
    ret = None
    try:
        txt = open(os.path.join(core.REPO, 'docs', page), encoding='utf-8').read()
        m = re.search(r'resynth fn %s\s*\((.*?)\)\s*->\s*([A-Za-z_0-9]+)\s*;' % re.escape(f['name']), txt, re.S)
        if m: ret = m.group(2).lower()
    except OSError:
        pass
    _DOCRET[path] = ret
    return ret


def name_mandatory(src, lib, rng, p=(1, 2)):
    """Semantics-preserving rewrite (C11): in calls of library functions, pass the mandatory parameters by name instead of
    by position (in declaration order or reversed). Only calls whose leading arguments are all positional are touched."""
    try:
        text = src.decode('utf-8')
    except UnicodeDecodeError:
        return src
    out, i = '', 0
    while True:
        m = _CALL_RE.search(text, i)
        if not m:
            out += text[i:]; break
        # do not touch text inside string literals or comments: count quotes on the line before the match
        ls = text.rfind('\n', 0, m.start()) + 1
        before = text[ls:m.start()]
        if before.count('"') % 2 == 1 or '#' in before or '//' in before:
            out += text[i:m.end()]; i = m.end(); continue
        f = _lookup(lib, m.group(1))
        # find the matching parenthesis
        j, depth, instr = m.end(), 1, False
        while j < len(text) and depth:
            ch = text[j]
            if instr: instr = ch != '"'
            elif ch == '"': instr = True
            elif ch == '(': depth += 1
            elif ch == ')': depth -= 1
            j += 1
        inner = text[m.end():j - 1]
        if f is None or f.get('kind') != 'func' or depth or not rng.chance(*p):
            out += text[i:m.end()]; i = m.end(); continue
        pos = doc_pos_names(f)
        if pos is None or len(pos) != len([a for a in f['args'] if a['kind'] == 'pos']):
            out += text[i:m.end()]; i = m.end(); continue
        args = _split_args(inner)
        if not pos or len(args) < len(pos) or any(_NAMED_RE.match(a) for a in args[:len(pos)]):
            out += text[i:m.end()]; i = m.end(); continue
        named = ['%s: %s' % (n, name_mandatory(a.strip().encode(), lib, rng, p).decode()) for n, a in zip(pos, args)]
        rest = args[len(pos):]
        first_named = [a for a in rest if _NAMED_RE.match(a)]
        anon = [a for a in rest if not _NAMED_RE.match(a)]
        if rng.chance(1, 2): named.reverse()
        # named arguments first (mandatory + the optional ones that were given), then the collected tail
        new_inner = ', '.join(named + [a.strip() for a in first_named] + [name_mandatory(a.strip().encode(), lib, rng, p).decode() for a in anon])
        out += text[i:m.end()] + new_inner + ')'
        i = j
    return out.encode('utf-8')


_ARG_LIT = re.compile(r'(?P<pre>[(,:]\s*)(?P<lit>"[^"\n]*"|\d+\.\d+\.\d+\.\d+(?::\d+)?|0x[0-9a-fA-F]+|\d+)(?P<post>\s*[,)])')


def hoist_literals(src, rng, p=(1, 3)):
    """Semantics-preserving rewrite (C14: a let-bound plain value and its defining expression are interchangeable): literal
    arguments of single-line statements are bound by a `let` placed before the statement and passed by name.  The value is then
    a shared, still-referenced object when the callee receives it - and it stays bound afterwards."""
    try:
        lines = src.decode('utf-8').split('\n')
    except UnicodeDecodeError:
        return src
    out, n = [], 0
    whole = True          # the previous statement is complete: this line starts a new one (a `let` may only go between statements)
    for l in lines:
        st = l.strip()
        starts = whole
        if st and not st.startswith(('#', '//')):
            whole = st.endswith(';') and '#' not in l and '//' not in l
        if not starts or not st.endswith(';') or st.startswith(('import ', '#', '//')) or '#' in l or '//' in l or l.count('"') % 2:
            out.append(l); continue
        lets = []
        def rep(m):
            nonlocal n
            # never inside a string literal: an even number of quotes must precede the match
            if l[:m.start('lit')].count('"') % 2 or not rng.chance(*p): return m.group(0)
            # `name: value` only when the colon is an argument name, not a socket port (digit before it)
            pre = m.group('pre')
            if pre.startswith(':') and (m.start() == 0 or not (l[m.start() - 1].isalnum() or l[m.start() - 1] == '_') or l[m.start() - 1].isdigit()): return m.group(0)
            n += 1
            lets.append('let hoist%d = %s;' % (n, m.group('lit')))
            return '%shoist%d%s' % (pre, n, m.group('post'))
        l2 = _ARG_LIT.sub(rep, l)
        out.extend(lets); out.append(l2)
    return '\n'.join(out).encode('utf-8')


_INT_ARG = re.compile(r'(?P<pre>(?:[(,]|[A-Za-z_]\w*:)\s*)(?P<n>\d+)(?P<post>\s*[,)])')


def respell_ints(src, rng, p=(1, 2)):
    """Semantics-preserving rewrite (C17: every spelling of an integer literal denotes its value): decimal integer arguments are
    respelled in hex (either case), zero-padded hex or zero-padded decimal.  Socket ports (`ip:port`) are left alone."""
    try:
        text = src.decode('utf-8')
    except UnicodeDecodeError:
        return src
    out = []
    for l in text.split('\n'):
        if '#' in l or '//' in l:
            out.append(l); continue
        def rep(m):
            if l[:m.start('n')].count('"') % 2 or not rng.chance(*p): return m.group(0)
            v = int(m.group('n'))
            if v >= 2 ** 64: return m.group(0)
            return m.group('pre') + rng.choice(['0x%x', '0x%X', '0x%04X', '0x000%x', '00%d', '0x%016x']) % v + m.group('post')
        out.append(_INT_ARG.sub(rep, l))
    return '\n'.join(out).encode('utf-8')
