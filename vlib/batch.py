"""Several inputs on one command line: the real binary vs the model's `batch` (Model/Batch.lean, src/cli.rs `resynth()`)."""
import os, re, shutil, subprocess, tempfile, resource, signal
from . import core
from .core import sh_hex

LINE_RE = re.compile(r'^(?P<path>.*?)(?::(?P<line>\d+):(?P<col>\d+))?: error: (?P<what>process_file|not a file name|delete)(?:: (?P<msg>.*))?$')


def _cls(msg):
    for pre, cls in (('Lex Error', 'Lex'), ('Parse Error', 'Parse'), ('Import Error', 'Import'), ('Name Error', 'Name'), ('Type Error', 'Type'),
                     ('Runtime Error', 'Runtime'), ('Memory Error', 'Memory'), ('Variable ', 'MultipleAssign')):
        if msg.startswith(pre): return cls
    return 'Io'


def run_real(inputs, keep=False, budget=None, outdir_missing=False):
    """inputs: list of dict(stem=str|None (None: a path without file name), src=bytes|None (None: missing file), isdir=bool)
    -> dict(exit, reports [str], dir {stem: bytes}, stdout, stderr)"""
    d = tempfile.mkdtemp(prefix='rsbat')
    try:
        # outdir_missing: False | True / 'missing' (a directory that does not exist) | 'deep' (two missing levels) |
        # 'under-file' (an ancestor is a regular file) | 'under-proc' (a place where nothing can be created)
        od = os.path.join(d, 'out')
        os.makedirs(od)
        if outdir_missing in (True, 'missing'): od = os.path.join(d, 'out', 'nope')
        elif outdir_missing == 'deep': od = os.path.join(d, 'out', 'nope', 'deeper')
        elif outdir_missing == 'under-file':
            open(os.path.join(d, 'out', 'blk'), 'wb').write(b'x'); od = os.path.join(d, 'out', 'blk', 'sub')
        elif outdir_missing == 'under-proc': od = '/proc/nope/sub'
        paths = []
        for k, i in enumerate(inputs):
            sub = os.path.join(d, 'in%d' % k); os.mkdir(sub)
            if i['stem'] is None:
                paths.append(os.path.join(sub, '..')); continue
            p = os.path.join(sub, i['stem'] + '.rsyn')
            if i.get('isdir'): os.mkdir(p)
            elif i['src'] is not None: open(p, 'wb').write(i['src'])
            paths.append(p)
        def pre():
            if budget is not None:
                signal.signal(signal.SIGXFSZ, signal.SIG_IGN)
                resource.setrlimit(resource.RLIMIT_FSIZE, (budget, budget))
        p = subprocess.run([core.CLI] + (['-k'] if keep else []) + ['--out-dir', od] + paths, capture_output=True, cwd=d, timeout=120, preexec_fn=pre)
        out = p.stdout.decode('utf-8', 'replace'); err = p.stderr.decode('utf-8', 'replace')
        reports = []
        k = 0
        for ln in out.splitlines():
            if k >= len(paths): break
            if ln.startswith(paths[k] + ' -> ') and ln.rstrip().endswith('ok'):
                reports.append('ok'); k += 1; continue
            m = LINE_RE.match(ln)
            if not m or m.group('path') != paths[k]: continue
            if m.group('what') == 'delete': continue
            if m.group('what') == 'not a file name': reports.append('notafilename'); k += 1; continue
            reports.append('error:%s:%s:%s' % (_cls(m.group('msg') or ''), m.group('line') or 0, m.group('col') or 0)); k += 1
        if 'panicked at' in err or p.returncode not in (0, 1):
            reports.append('panic')
        files = {}
        if os.path.isdir(od):
            for f in os.listdir(od):
                if f.endswith('.pcap'): files[f[:-5]] = open(os.path.join(od, f), 'rb').read()
        return dict(exit=p.returncode, reports=reports, dir=files, stdout=out, stderr=err)
    finally:
        shutil.rmtree(d, ignore_errors=True)


def run_model(c, inputs, keep=False, budget=None, outdir_missing=False):
    args = []
    for i in inputs:
        st = '-' if i['stem'] is None else sh_hex(i['stem'].encode())
        src = 'UNREADABLE' if i.get('isdir') else 'MISSING' if i['src'] is None else sh_hex(i['src'])
        args.append('%s:%s:%d:%s' % (st, src, 0 if outdir_missing else 1, '-' if budget is None else budget))
    r = c.model.ask('batch %d %s' % (1 if keep else 0, ' '.join(args)))
    if not r.startswith('exit='):
        return dict(exit=None, reports=['model-error ' + r[:100]], dir={})
    ex, rest = r[5:].split(' reports=', 1)
    reps, dr = rest.split(' dir=', 1)
    files = {}
    for ent in dr.split(';'):
        if '=' in ent:
            k, v = ent.split('=', 1); files[core.unhex(k).decode()] = core.unhex(v)
    return dict(exit=int(ex), reports=[x.split(':')[0] if x.startswith('panic') else x for x in reps.split(',') if x], dir=files)


def outname(stem):
    """`PathBuf::set_extension("pcap")` on the stem: a.b -> a, .b -> .b"""
    i = stem.rfind('.')
    return stem if i <= 0 else stem[:i]


def compare(c, inputs, keep=False, budget=None, outdir_missing=False, what='batch'):
    """records a disagreement when the model and the binary differ; returns (impl, model)"""
    impl = run_real(inputs, keep, budget, outdir_missing)
    model = run_model(c, inputs, keep, budget, outdir_missing)
    failed = [r != 'ok' for r in impl['reports']]
    def proj(files, reports):
        return files          # also the content a failed run leaves behind under -k is modelled (Model/Cli.lean addStmtsKeep)
    same = impl['exit'] == model['exit'] and impl['reports'] == model['reports'] and proj(impl['dir'], impl['reports']) == proj(model['dir'], model['reports'])
    if not same:
        desc = dict(inputs=[dict(stem=i['stem'], src=(i['src'].decode('utf-8', 'replace')[:400] if i['src'] is not None else None), isdir=bool(i.get('isdir'))) for i in inputs],
                    keep=keep, budget=budget, outdir_missing=outdir_missing)
        c.disagree(what, desc, 'exit=%s reports=%s dir=%s' % (impl['exit'], impl['reports'], sorted((k, len(v)) for k, v in impl['dir'].items())),
                   'exit=%s reports=%s dir=%s' % (model['exit'], model['reports'], sorted((k, len(v)) for k, v in model['dir'].items())))
    return impl, model
