"""Builder-centric scenarios shared by C02 (IPv4 headers), C03 (transport headers) and C18 (Ethernet framing):
every IP-level builder x payload lengths x option grids x raw on/off, optionally inside tunnels.
A scenario knows, for every record it emits, the header fields the script asked for."""
from . import core, progdiff
from .core import sh_hex


def ip(n): return '%d.%d.%d.%d' % (n >> 24, n >> 16 & 255, n >> 8 & 255, n & 255)
def kvs(r): return dict(x.split('=', 1) for x in r.split(' ')[1:])


SWEEP = []      # when non-empty: payload lengths are taken from here in order (length sweeps)

def payload(r, sizes=None):
    sweeping = bool(SWEEP)
    n = SWEEP.pop(0) if SWEEP else r.choice(sizes or [0, 0, 1, 2, 3, 7, 8, 9, 31, 32, 33, 255, 256, 1471, 1472, 1473])
    k = r.below(5)
    if sweeping and k < 2: k = 3          # a length sweep is about the length: content that sums to nothing would hide a skipped word
    if k == 0: b = bytes(n)
    elif k == 1: b = b'\xff' * n
    elif k == 2: b = bytes([0xff, 0xfe] * (n // 2) + [0xff] * (n % 2))   # sums that carry
    else: b = r.bytes(n)
    return b


def addr(r):
    """an IPv4 address from every class a mapping to link-layer addresses might treat specially"""
    k = r.below(10)
    if k == 0: return 0xe0000000 + r.below(2 ** 28)                  # multicast 224/4
    if k == 1: return r.choice([0xffffffff, 0, 0x7f000001, 0xe0000001, 0xe00000fb, 0xefffffff, 0xf0000001])
    if k == 2: return r.choice([0x0a000000, 0xac100000, 0xc0a80000, 0xa9fe0000]) + r.below(65536)   # private / link-local
    if k == 3: return (r.below(256) << 24) | r.choice([0x00ffffff, 0x000000ff, 0x00000000])        # x.255.255.255, x.0.0.255, x.0.0.0
    return r.below(2 ** 32)


def lit(b):
    return '"|%s|"' % b.hex() if b else '""'


class Scen:
    """accumulates declarations, statements and per-record expectations"""
    def __init__(self, r, raw):
        self.r, self.raw = r, raw
        self.decl, self.stmts, self.exp = ['import ipv4;', 'import dns;', 'import vxlan;', 'import gre;', 'import erspan1;', 'import erspan2;', 'import text;'], [], []
        self.big = {}
        self.n = 0
    def rawarg(self, first=False):
        return (('raw: true' + (', ' if first else '')) if first else ', raw: true') if self.raw else ''
    def bigpayload(self, n):
        """let-bound payload of n bytes (built by doubling) -> expression, bytes"""
        blk = bytes((i * 13 + 5) % 256 for i in range(64))
        name = 'blk'
        if name not in self.big:
            self.decl.append('let blk = %s;' % lit(blk)); self.big[name] = blk
        parts, data = [], b''
        k, cur, curb = 0, 'blk', blk
        names = [(cur, curb)]
        while len(curb) * 2 <= n:
            nm = 'blk%d' % (k + 1)
            if nm not in self.big:
                self.decl.append('let %s = text::concat(%s, %s);' % (nm, cur, cur)); self.big[nm] = curb + curb
            cur, curb = nm, curb + curb; names.append((cur, curb)); k += 1
        rest = n
        for nm, bb in reversed(names):
            while rest >= len(bb) and len(bb) > 0:
                parts.append(nm); data += bb; rest -= len(bb)
                if len(bb) > 64: break
        if rest:
            tail = bytes((i * 3 + 1) % 256 for i in range(rest)); parts.append(lit(tail)); data += tail
        return ', '.join(parts), data
    def program(self):
        src = ('\n'.join(self.decl + self.stmts) + '\n').encode()
        if self.r.chance(1, 3):
            # C11 says it makes no difference: mandatory parameters passed by name (in either order) instead of by position
            from .gen import Lib, name_mandatory
            src = name_mandatory(src, Lib(), self.r)
        elif self.r.chance(1, 4):
            # C14 says it makes no difference: literal arguments bound by a let before the statement and passed by name
            from .gen import hoist_literals
            src = hoist_literals(src, self.r)
        if self.r.chance(1, 4):
            # C17 says it makes no difference: integer arguments in other spellings (hex in either case, zero padding)
            from .gen import respell_ints
            src = respell_ints(src, self.r)
        return src

    # ---- builders; each appends statements and expectations
    def tcp(self, nops=4, wrap=None):
        r = self.r
        cl = (0x0a000000 + r.below(2 ** 24), r.below(65536)); sv = (0xc0000200 + r.below(256), r.choice([80, 443, r.below(65536)]))
        if r.chance(1, 3): cl, sv = (addr(r), cl[1]), (addr(r), sv[1])
        self.n += 1; f = 't%d' % self.n
        self.decl.append('let %s = ipv4::tcp::flow(%s:%d, %s:%d%s);' % (f, ip(cl[0]), cl[1], ip(sv[0]), sv[1], self.rawarg()))
        c2s = dict(src=cl[0], dst=sv[0]); s2c = dict(src=sv[0], dst=cl[0])
        base = dict(proto=6, id=0, ttl=64, off=0, evil=False, df=False, mf=False, l4='tcp', eth='ip')
        def E(d, **kw): e = dict(base); e.update(d); e.update(kw); return e
        for _ in range(nops):
            if r.chance(1, 4):
                self.n += 1
                self.stmts.append('let q%d = %s.%s_%s;' % (self.n, f, r.choice(['client', 'server']), r.choice(['raw_segment(%s)' % lit(payload(r)), 'hdr()', 'hdr(bytes: %d)' % r.below(2000)])))
            k = r.below(10)
            if k == 0: self.emit('%s.open()' % f, [E(c2s), E(s2c), E(c2s)], wrap)
            elif k in (1, 2, 3):
                b = payload(r); fo = r.choice([0, 0, 1, 185, 8191]); ack = r.chance(1, 2)
                who = r.chance(1, 2)
                args = ([] if ack else ['send_ack: false']) + (['frag_off: %d' % fo] if fo else []) + [lit(b)]
                a, bb = (c2s, s2c) if who else (s2c, c2s)
                self.emit('%s.%s_message(%s)' % (f, 'client' if who else 'server', ', '.join(args)), [E(a, off=fo, plen=len(b))] + ([E(bb)] if ack else []), wrap)
            elif k == 4: self.emit('%s.client_segment(%s)' % (f, lit(payload(r))), [E(c2s)], wrap)
            elif k == 5: self.emit('%s.server_segment(%s)' % (f, lit(payload(r))), [E(s2c)], wrap)
            elif k == 6: self.emit('%s.client_ack()' % f if r.chance(1, 2) else '%s.server_ack()' % f, None, wrap, dyn=lambda s: [E(c2s if 'client' in s else s2c)])
            elif k == 7: self.emit('%s.client_reset()' % f if r.chance(1, 2) else '%s.server_reset()' % f, None, wrap, dyn=lambda s: [E(c2s if 'client' in s else s2c)])
            elif k == 8: self.emit('%s.client_close()' % f, [E(c2s), E(s2c), E(c2s)], wrap)
            else: self.emit('%s.server_close()' % f, [E(s2c), E(c2s), E(s2c)], wrap)
    def optgrid(self):
        """every combination of the per-call options of the message / datagram builders with payloads of 0, 1 and 2 bytes
        (an option whose handling is shared with the payload path is otherwise only exercised with whatever length chance picks)"""
        r = self.r
        cl = (0x0a000000 + r.below(2 ** 24), 1024 + r.below(60000)); sv = (0xc0000200 + r.below(256), 80)
        self.n += 1; f = 't%d' % self.n
        self.decl.append('let %s = ipv4::tcp::flow(%s:%d, %s:%d%s);' % (f, ip(cl[0]), cl[1], ip(sv[0]), sv[1], self.rawarg()))
        c2s = dict(src=cl[0], dst=sv[0]); s2c = dict(src=sv[0], dst=cl[0])
        base = dict(proto=6, id=0, ttl=64, off=0, evil=False, df=False, mf=False, l4='tcp', eth='ip')
        def E(d, **kw): e = dict(base); e.update(d); e.update(kw); return e
        for who in (True, False):
            for fo in (0, 1, 185, 8191):
                for ack in (True, False):
                    for n in (0, 1, 2):
                        b = r.bytes(n)
                        args = ([] if ack else ['send_ack: false']) + (['frag_off: %d' % fo] if fo else []) + [lit(b)]
                        a, bb = (c2s, s2c) if who else (s2c, c2s)
                        self.emit('%s.%s_message(%s)' % (f, 'client' if who else 'server', ', '.join(args)), [E(a, off=fo, plen=n)] + ([E(bb)] if ack else []))
        ucl = (0x0a000000 + r.below(2 ** 24), r.below(65536)); usv = (0xac100000 + r.below(2 ** 16), 53)
        self.n += 1; u = 'u%d' % self.n
        self.decl.append('let %s = ipv4::udp::flow(%s:%d, %s:%d%s);' % (u, ip(ucl[0]), ucl[1], ip(usv[0]), usv[1], self.rawarg()))
        for who in (True, False):
            for fo in (0, 1, 8191):
                for cs in (True, False):
                    for n in (0, 1, 2):
                        b = r.bytes(n)
                        args = (['frag_off: %d' % fo] if fo else []) + ([] if cs else ['csum: false']) + [lit(b)]
                        a = dict(src=ucl[0], dst=usv[0], sport=ucl[1], dport=usv[1]) if who else dict(src=usv[0], dst=ucl[0], sport=usv[1], dport=ucl[1])
                        self.emit('%s.%s_dgram(%s)' % (u, 'client' if who else 'server', ', '.join(args)),
                                  [dict(a, proto=17, id=0, ttl=64, off=fo, evil=False, df=False, mf=False, l4=('udp', cs), eth='ip', plen=n)])
    def addrsum(self, proto):
        """flows whose two addresses ADD UP to each of a ladder of values just below 2^32 (a partial sum kept in 32 bits loses its
        carry there), one message in each direction"""
        r = self.r
        base = dict(id=0, ttl=64, off=0, evil=False, df=False, mf=False, eth='ip')
        for target in list(range(0xffe80000, 0x100000000, 0x8000)) + [0xffffffff, 0xfffffffe, 0x100000000 - (proto << 16), 0x100000000 - (proto << 16) - 1]:
            sv = r.below(2 ** 32); cl = (target - sv) % 2 ** 32
            self.n += 1
            if proto == 6:
                f = 't%d' % self.n
                self.decl.append('let %s = ipv4::tcp::flow(%s:%d, %s:%d%s);' % (f, ip(cl), r.below(65536), ip(sv), 80, self.rawarg()))
                b = payload(r, [0, 1, 8, 9])
                self.emit('%s.client_message(%s)' % (f, lit(b)), [dict(base, src=cl, dst=sv, proto=6, l4='tcp'), dict(base, src=sv, dst=cl, proto=6, l4='tcp')])
            else:
                f = 'u%d' % self.n; cp, sp = r.below(65536), r.below(65536)
                self.decl.append('let %s = ipv4::udp::flow(%s:%d, %s:%d%s);' % (f, ip(cl), cp, ip(sv), sp, self.rawarg()))
                b = payload(r, [0, 1, 8, 9])
                self.emit('%s.client_dgram(%s)' % (f, lit(b)), [dict(base, src=cl, dst=sv, sport=cp, dport=sp, proto=17, l4=('udp', True), plen=len(b))])
                self.emit('%s.server_dgram(%s)' % (f, lit(b)), [dict(base, src=sv, dst=cl, sport=sp, dport=cp, proto=17, l4=('udp', True), plen=len(b))])
    def fragedge(self):
        """for payloads with a partial last block: the request that ends exactly on the last FULL block (more fragments follow) and
        the partial block itself (none follow), for every split point"""
        r = self.r
        for n in (9, 12, 15, 17, 31, 100, 1481):
            s_, d_ = addr(r), addr(r)
            o = dict(id=r.below(65536), evil=False, df=False, ttl=64, proto=17)
            b = r.bytes(n)
            self.n += 1; f = 'g%d' % self.n
            self.decl.append('let %s = ipv4::frag(%s, %s, id: %d, %s);' % (f, ip(s_), ip(d_), o['id'], lit(b)))
            q = n // 8
            for a in sorted(set([0, q // 2, q - 1, q]) - {-1}):
                if a < q: self.emit('%s.fragment(%d, %d%s)' % (f, a, q - a, self.rawarg()), [dict(src=s_, dst=d_, off=a, mf=True, l4=None, eth='ip', **o)])
            self.emit('%s.fragment(%d, 1%s)' % (f, q, self.rawarg()), [dict(src=s_, dst=d_, off=q, mf=False, l4=None, eth='ip', **o)])
            self.emit('%s.tail(%d%s)' % (f, q, self.rawarg()), [dict(src=s_, dst=d_, off=q, mf=False, l4=None, eth='ip', **o)])
    def nonemit(self):
        """every call that returns bytes without emitting (raw datagrams / segments, bare headers), each followed by emitting calls in
        both directions on the same flow: the flow's framing, addresses and ports are as before"""
        r = self.r
        for call in ('client_raw_dgram("|0102|")', 'server_raw_dgram("|0102|")', 'client_raw_dgram(csum: false, "x")', 'server_raw_dgram(csum: false)'):
            cl = (addr(r), r.below(65536)); sv = (addr(r), r.below(65536))
            self.n += 1; f = 'u%d' % self.n
            self.decl.append('let %s = ipv4::udp::flow(%s:%d, %s:%d%s);' % (f, ip(cl[0]), cl[1], ip(sv[0]), sv[1], self.rawarg()))
            a = dict(src=cl[0], dst=sv[0], sport=cl[1], dport=sv[1]); b_ = dict(src=sv[0], dst=cl[0], sport=sv[1], dport=cl[1])
            base = dict(proto=17, id=0, ttl=64, off=0, evil=False, df=False, mf=False, l4=('udp', True), eth='ip')
            self.emit('%s.client_dgram("before")' % f, [dict(base, **a)])
            self.n += 1; self.stmts.append('let q%d = %s.%s;' % (self.n, f, call))
            self.emit('%s.client_dgram("after")' % f, [dict(base, **a)])
            self.emit('%s.server_dgram("after")' % f, [dict(base, **b_)])
        for call in ('client_raw_segment("ab")', 'server_raw_segment("ab")', 'client_hdr()', 'server_hdr()', 'client_hdr(bytes: 7)', 'server_hdr(bytes: 7)'):
            cl = (addr(r), r.below(65536)); sv = (addr(r), r.below(65536))
            self.n += 1; f = 't%d' % self.n
            self.decl.append('let %s = ipv4::tcp::flow(%s:%d, %s:%d%s);' % (f, ip(cl[0]), cl[1], ip(sv[0]), sv[1], self.rawarg()))
            c2s = dict(src=cl[0], dst=sv[0]); s2c = dict(src=sv[0], dst=cl[0])
            base = dict(proto=6, id=0, ttl=64, off=0, evil=False, df=False, mf=False, l4='tcp', eth='ip')
            self.emit('%s.client_segment("before")' % f, [dict(base, **c2s)])
            self.n += 1; self.stmts.append('let q%d = %s.%s;' % (self.n, f, call))
            self.emit('%s.client_segment("after")' % f, [dict(base, **c2s)])
            self.emit('%s.server_segment("after")' % f, [dict(base, **s2c)])
    def fanout(self):
        """several flows that share an end point (one source to several destinations: a ping sweep, a resolver's clients) and flows
        of different protocols between the SAME two addresses, used in turn: every packet belongs to the flow it was asked of"""
        r = self.r
        base = dict(id=0, ttl=64, off=0, evil=False, df=False, mf=False, eth='ip')
        h = addr(r); targets = [addr(r) for _ in range(3)]
        flows = []
        for t in targets:
            self.n += 1; f = 'i%d' % self.n
            self.decl.append('let %s = ipv4::icmp::flow(%s, %s%s);' % (f, ip(h), ip(t), self.rawarg()))
            flows.append([f, t, 0, 0])
        for k in range(9):
            fl = flows[[0, 1, 2, 2, 0, 1, 1, 0, 2][k]]
            b = payload(r, [0, 1, 8, 9])
            if k % 4 == 3:
                self.emit('%s.echo_reply(%s)' % (fl[0], lit(b)), [dict(base, src=fl[1], dst=h, proto=1, l4=('icmp', 0, 0x1234, fl[3]), plen=len(b))]); fl[3] += 1
            else:
                self.emit('%s.echo(%s)' % (fl[0], lit(b)), [dict(base, src=h, dst=fl[1], proto=1, l4=('icmp', 8, 0x1234, fl[2]), plen=len(b))]); fl[2] += 1
        # one pair of hosts, three transports
        a, b_ = addr(r), addr(r)
        self.n += 1; t = 't%d' % self.n; u = 'u%d' % self.n; ic = 'j%d' % self.n
        pa, pb = r.below(65536), r.below(65536)
        self.decl.append('let %s = ipv4::tcp::flow(%s:%d, %s:%d%s);' % (t, ip(a), pa, ip(b_), pb, self.rawarg()))
        self.decl.append('let %s = ipv4::udp::flow(%s:%d, %s:%d%s);' % (u, ip(a), pa, ip(b_), pb, self.rawarg()))
        self.decl.append('let %s = ipv4::icmp::flow(%s, %s%s);' % (ic, ip(a), ip(b_), self.rawarg()))
        c2s = dict(src=a, dst=b_); s2c = dict(src=b_, dst=a)
        T = dict(base, proto=6, l4='tcp'); U = dict(base, proto=17, l4=('udp', True))
        seq = 0
        for k in range(4):
            x = payload(r, [0, 1, 8, 9])
            self.emit('%s.client_dgram(%s)' % (u, lit(x)), [dict(U, sport=pa, dport=pb, plen=len(x), **c2s)])
            self.emit('%s.client_message(%s)' % (t, lit(x)), [dict(T, **c2s), dict(T, **s2c)])
            self.emit('%s.server_dgram(%s)' % (u, lit(x)), [dict(U, sport=pb, dport=pa, plen=len(x), **s2c)])
            self.emit('%s.echo(%s)' % (ic, lit(x)), [dict(base, proto=1, l4=('icmp', 8, 0x1234, seq), plen=len(x), **c2s)]); seq += 1
            self.emit('%s.server_message(%s)' % (t, lit(x)), [dict(T, **s2c), dict(T, **c2s)])
            if k == 1:
                self.emit('dns::host(%s, "a.example", ns: %s%s, 10.0.0.1)' % (ip(a), ip(b_), self.rawarg()), [dict(U, sport=32768, dport=53, **c2s), dict(U, sport=53, dport=32768, **s2c)])
    def portclasses(self):
        """UDP and TCP flows on the port numbers that protocols own (a builder shared with a tunnel or a helper might treat its port
        specially): each as destination and as source, one message each way"""
        r = self.r
        base = dict(id=0, ttl=64, off=0, evil=False, df=False, mf=False, eth='ip')
        for port in (4789, 4790, 8472, 6081, 53, 5353, 67, 68, 69, 123, 161, 500, 514, 1900, 3784, 0, 65535, 443, 80, 22, 179):
            a, b = addr(r), addr(r); other = 1024 + r.below(60000)
            for cp, sp in ((other, port), (port, other)):
                self.n += 1; u = 'u%d' % self.n
                self.decl.append('let %s = ipv4::udp::flow(%s:%d, %s:%d%s);' % (u, ip(a), cp, ip(b), sp, self.rawarg()))
                x = payload(r, [0, 1, 8, 9])
                self.emit('%s.client_dgram(%s)' % (u, lit(x)), [dict(base, src=a, dst=b, sport=cp, dport=sp, proto=17, l4=('udp', True), plen=len(x))])
                self.emit('%s.server_dgram(%s)' % (u, lit(x)), [dict(base, src=b, dst=a, sport=sp, dport=cp, proto=17, l4=('udp', True), plen=len(x))])
            if port in (4789, 53, 0, 65535, 443, 179):
                self.n += 1; t = 't%d' % self.n
                self.decl.append('let %s = ipv4::tcp::flow(%s:%d, %s:%d%s);' % (t, ip(a), other, ip(b), port, self.rawarg()))
                self.emit('%s.client_message("x")' % t, [dict(base, src=a, dst=b, proto=6, l4='tcp'), dict(base, src=b, dst=a, proto=6, l4='tcp')])
    def pieces(self):
        """payloads handed over as SEVERAL arguments of odd and even lengths, small and beyond one segment size in total (a builder
        that sums or copies piece by piece has to carry the byte parity across pieces)"""
        r = self.r
        base = dict(id=0, ttl=64, off=0, evil=False, df=False, mf=False, eth='ip')
        a, b = addr(r), addr(r)
        self.n += 1; t = 't%d' % self.n; u = 'u%d' % self.n
        self.decl.append('let %s = ipv4::tcp::flow(%s:%d, %s:%d%s);' % (t, ip(a), 1025, ip(b), 80, self.rawarg()))
        self.decl.append('let %s = ipv4::udp::flow(%s:%d, %s:%d%s);' % (u, ip(a), 1025, ip(b), 53, self.rawarg()))
        c2s = dict(src=a, dst=b); s2c = dict(src=b, dst=a)
        T = dict(base, proto=6, l4='tcp'); U = dict(base, proto=17, l4=('udp', True))
        for shape in ([3, 1500, 4], [1, 2, 1500], [1, 1, 1], [3, 3, 3], [1459, 1, 1], [1, 1460, 1], [1461, 2, 1], [7, 1500, 1, 9, 1], [2, 1500, 4], [1, 700, 761, 3], [5, 0, 1500, 0, 1], [1501, 1], [1]):
            parts = [r.bytes(n) for n in shape]
            args = ', '.join(lit(p_) for p_ in parts)
            who = r.chance(1, 2)
            self.emit('%s.%s_message(%s)' % (t, 'client' if who else 'server', args), [dict(T, **(c2s if who else s2c)), dict(T, **(s2c if who else c2s))])
            self.emit('%s.%s_segment(%s)' % (t, 'client' if who else 'server', args), [dict(T, **(c2s if who else s2c))])
            if sum(shape) <= 1472:
                self.emit('%s.client_dgram(%s)' % (u, args), [dict(U, sport=1025, dport=53, plen=sum(shape), **c2s)])
    def drop_empty(self, stmt):
        """an empty payload may also be given by passing no payload argument at all"""
        if '.echo' in stmt or not self.r.chance(1, 2): return stmt
        if stmt.endswith(', "")'): return stmt[:-5] + ')'
        if stmt.endswith('("")'): return stmt[:-3] + ')'
        return stmt
    def emit(self, stmt, exps, wrap=None, dyn=None):
        stmt = self.drop_empty(stmt)
        if exps is None: exps = dyn(stmt)
        if wrap: stmt, exps = wrap(stmt, exps)
        self.stmts.append(stmt + ';'); self.exp += exps
    def udp(self, nops=3, wrap=None, sizes=None):
        r = self.r
        cl = (0x0a000000 + r.below(2 ** 24), r.below(65536)); sv = (0xac100000 + r.below(2 ** 16), r.choice([53, 67, r.below(65536)]))
        if r.chance(1, 3): cl, sv = (addr(r), cl[1]), (addr(r), sv[1])
        self.n += 1; f = 'u%d' % self.n
        self.decl.append('let %s = ipv4::udp::flow(%s:%d, %s:%d%s);' % (f, ip(cl[0]), cl[1], ip(sv[0]), sv[1], self.rawarg()))
        for _ in range(nops):
            if r.chance(1, 3):
                # a call that returns bytes and emits nothing must leave the flow as it was (framing, addresses, ports)
                self.n += 1
                self.stmts.append('let q%d = %s.%s_raw_dgram(%s%s);' % (self.n, f, r.choice(['client', 'server']), r.choice(['', 'csum: false, ']), lit(payload(r, sizes))))
            who = r.chance(1, 2); b = payload(r, sizes); fo = r.choice([0, 0, 1, 8191]); cs = r.chance(3, 4)
            args = (['frag_off: %d' % fo] if fo else []) + ([] if cs else ['csum: false']) + [lit(b)]
            a = dict(src=cl[0], dst=sv[0], sport=cl[1], dport=sv[1]) if who else dict(src=sv[0], dst=cl[0], sport=sv[1], dport=cl[1])
            self.emit('%s.%s_dgram(%s)' % (f, 'client' if who else 'server', ', '.join(args)),
                      [dict(a, proto=17, id=0, ttl=64, off=fo, evil=False, df=False, mf=False, l4=('udp', cs), eth='ip', plen=len(b))], wrap)
    def udp_special(self, b, csum=True):
        """a datagram with fixed endpoints (for crafted checksum cases)"""
        self.n += 1; f = 'u%d' % self.n
        self.decl.append('let %s = ipv4::udp::flow(1.2.3.4:1000, 5.6.7.8:53%s);' % (f, self.rawarg()))
        self.emit('%s.client_dgram(%s)' % (f, lit(b)), [dict(src=0x01020304, dst=0x05060708, sport=1000, dport=53, proto=17, id=0, ttl=64, off=0, evil=False, df=False, mf=False, l4=('udp', True), eth='ip')])
    def unicast(self, wrap=None):
        r = self.r; s = (addr(r), r.below(65536)); d = (addr(r), r.below(65536)); b = payload(r)
        self.emit('ipv4::udp::unicast(%s:%d, %s/%d%s, %s)' % (ip(s[0]), s[1], ip(d[0]), d[1], self.rawarg(), lit(b)),
                  [dict(src=s[0], dst=d[0], sport=s[1], dport=d[1], proto=17, id=0, ttl=64, off=0, evil=False, df=False, mf=False, l4=('udp', False), eth='ip')], wrap)
    def broadcast(self, override=None, wrap=None):
        r = self.r; s = (r.below(2 ** 32), 68); d = (0xffffffff, 67); b = payload(r)
        ov = ', srcip: %s' % ip(override) if override is not None else ''
        self.emit('ipv4::udp::broadcast(%s:%d, %s:%d%s%s, %s)' % (ip(s[0]), s[1], ip(d[0]), d[1], ov, self.rawarg(), lit(b)),
                  [dict(src=override if override is not None else s[0], dst=d[0], sport=68, dport=67, proto=17, id=0, ttl=64, off=0, evil=False, df=False, mf=False,
                        l4=('udp', False), eth=('bcast', s[0]))], wrap)
    def dnshost(self):
        r = self.r; cl = r.below(2 ** 32); ns = r.choice([0x01010101, r.below(2 ** 32)])
        ips = [ip(r.below(2 ** 32)) for _ in range(r.below(4))]
        name = r.choice(['example.com', 'a.b.c', 'x', 'www.test.local'])
        args = [ip(cl), '"%s"' % name] + (['ns: %s' % ip(ns)] if ns != 0x01010101 else []) + ([self.rawarg()[2:]] if self.raw else []) + ips
        q = dict(src=cl, dst=ns, sport=32768, dport=53, proto=17, id=0, ttl=64, off=0, evil=False, df=False, mf=False, l4=('udp', True), eth='ip')
        a = dict(q, src=ns, dst=cl, sport=53, dport=32768)
        self.emit('dns::host(%s)' % ', '.join(args), [q, a])
    def icmp(self, nops=4, wrap=None):
        r = self.r; cl, sv = addr(r), addr(r)
        self.n += 1; f = 'i%d' % self.n
        self.decl.append('let %s = ipv4::icmp::flow(%s, %s%s);' % (f, ip(cl), ip(sv), self.rawarg()))
        ping = pong = 0
        for _ in range(nops):
            b = payload(r)
            if r.chance(1, 2):
                self.emit('%s.echo(%s)' % (f, lit(b)), [dict(src=cl, dst=sv, proto=1, id=0, ttl=64, off=0, evil=False, df=False, mf=False, l4=('icmp', 8, 0x1234, ping), eth='ip', plen=len(b))], wrap); ping += 1
            else:
                self.emit('%s.echo_reply(%s)' % (f, lit(b)), [dict(src=sv, dst=cl, proto=1, id=0, ttl=64, off=0, evil=False, df=False, mf=False, l4=('icmp', 0, 0x1234, pong), eth='ip', plen=len(b))], wrap); pong += 1
    def datagram(self):
        r = self.r; s, d = addr(r), addr(r)
        o = dict(id=r.choice([0, 1, 65535, r.below(65536)]), evil=r.chance(1, 3), df=r.chance(1, 2), mf=r.chance(1, 3), ttl=r.choice([0, 1, 64, 255, r.below(256)]),
                 off=r.choice([0, 1, 8191, r.below(8192)]), proto=r.choice([1, 6, 17, 47, 255, r.below(256)]))
        args = [ip(s), ip(d)]
        for k, nm in [('id', 'id'), ('evil', 'evil'), ('df', 'df'), ('mf', 'mf'), ('ttl', 'ttl'), ('off', 'frag_off'), ('proto', 'proto')]:
            if r.chance(2, 3) or k in ('off', 'id'):
                v = o[k]; args.append('%s: %s' % (nm, ('true' if v else 'false') if isinstance(v, bool) else v))
            else: o[k] = dict(id=0, evil=False, df=False, mf=False, ttl=64, off=0, proto=17)[k]
        args.append(lit(b'' if r.chance(1, 3) else payload(r)))     # header-only datagrams are common in scripts
        if self.raw: return   # ipv4::datagram has no raw option
        self.emit('ipv4::datagram(%s)' % ', '.join(args), [dict(src=s, dst=d, l4=None, eth='ip', **o)])
    def frag(self, big=None):
        r = self.r; s, d = addr(r), addr(r)
        o = dict(id=r.below(65536), evil=r.chance(1, 3), df=r.chance(1, 3), ttl=r.below(256), proto=r.choice([17, 6, r.below(256)]))
        if big is not None or r.chance(1, 4):
            # contexts of 8 KiB and more: lengths in 8-byte blocks no longer fit 13 bits, byte lengths need more than 16
            pexpr, b = self.bigpayload(big if big is not None else r.choice([8191, 8192, 8193, 8200, 16384, 30001, 65000]))
        else:
            b = payload(r, [0, 1, 8, 9, 24, 100, 1480]); pexpr = lit(b)
        self.n += 1; f = 'g%d' % self.n
        self.decl.append(self.drop_empty('let %s = ipv4::frag(%s, %s, id: %d, evil: %s, df: %s, ttl: %d, proto: %d, %s)' % (f, ip(s), ip(d), o['id'], str(o['evil']).lower(), str(o['df']).lower(), o['ttl'], o['proto'], pexpr)) + ';')
        n = len(b)
        for j in range(4 if big is not None else 1 + r.below(3)):
            k = r.below(3) if n < 8000 else r.below(2)
            if big is not None: k = [1, 0, 0, 2][j]
            if k == 0:
                off = r.below(n // 8 + 1); ln = r.below(n // 8 + 3); e = min(8 * (off + ln), n)
                if big is not None: ln = [0, 8191, 8192][j] if big >= 65000 else n // 8 + j; off = j; e = min(8 * (off + ln), n)
                self.emit('%s.fragment(%d, %d%s)' % (f, off, ln, self.rawarg()), [dict(src=s, dst=d, off=off, mf=e < n, l4=None, eth='ip', **o)])
            elif k == 1:
                off = r.below(n // 8 + 1)
                self.emit('%s.tail(%d%s)' % (f, off, self.rawarg()), [dict(src=s, dst=d, off=off, mf=False, l4=None, eth='ip', **o)])
            else:
                self.emit('%s.datagram(%s)' % (f, self.rawarg(True).rstrip(', ')), [dict(src=s, dst=d, off=0, mf=False, l4=None, eth='ip', **o)])
        if big is None and n % 8 and n >= 8 and r.chance(1, 2):
            # requests that end exactly on the last FULL 8-byte block of a payload with a partial block behind it (MF must stay
            # set), and the partial block itself (MF clear)
            q = n // 8
            a = r.below(q + 1)
            self.emit('%s.fragment(%d, %d%s)' % (f, a, q - a, self.rawarg()), [dict(src=s, dst=d, off=a, mf=True, l4=None, eth='ip', **o)])
            self.emit('%s.fragment(%d, 1%s)' % (f, q, self.rawarg()), [dict(src=s, dst=d, off=q, mf=False, l4=None, eth='ip', **o)])
    def sized(self, total):
        """one UDP datagram whose IP total length is exactly `total` (28..65535)"""
        n = total - 28
        expr, data = self.bigpayload(n)
        s, d = (0x0a0a0a0a, 1111), (0x0b0b0b0b, 2222)
        self.n += 1; f = 'u%d' % self.n
        self.decl.append('let %s = ipv4::udp::flow(%s:%d, %s:%d%s);' % (f, ip(s[0]), s[1], ip(d[0]), d[1], self.rawarg()))
        self.emit('%s.client_dgram(%s)' % (f, expr) if n else '%s.client_dgram()' % f,
                  [dict(src=s[0], dst=d[0], sport=s[1], dport=d[1], proto=17, id=0, ttl=64, off=0, evil=False, df=False, mf=False, l4=('udp', True), eth='ip', tot=total)])
    def tunnel_wrap(self, kind):
        """returns a wrap function: statement -> encapsulated statement, expectations -> outer expectation with inner"""
        r = self.r; a, b = r.below(2 ** 32), r.below(2 ** 32)
        self.n += 1; nm = 'x%d' % self.n
        inner_raw = self.raw
        traw = r.chance(1, 3)
        if kind == 'vxlan':
            sp, dp = r.below(65536), 4789
            self.decl.append('let %s = vxlan::session(%s:%d, %s:%d, sessionid: %d%s);' % (nm, ip(a), sp, ip(b), dp, r.below(2 ** 24), ', raw: true' if traw else ''))
            outer = dict(src=a, dst=b, sport=sp, dport=dp, proto=17, id=0, ttl=64, off=0, evil=False, df=False, mf=False, l4=('udp', False), eth='ip')
        else:
            # the GRE protocol type is a label for the payload: whatever it says, the OUTER packet is framed like any other
            extra = ', %s' % r.choice(['0x6558', '0x6558', '0x0800', '0x86dd', '0x88be', '0', '0xffff', str(r.below(65536))]) if kind == 'gre' else ''
            self.decl.append('let %s = %s::session(%s, %s%s%s);' % (nm, kind, ip(a), ip(b), extra, ', raw: true' if traw else ''))
            outer = dict(src=a, dst=b, proto=47, id=0, ttl=64, off=0, evil=False, df=False, mf=False, l4=None, eth='ip')
        def wrap(stmt, exps):
            return '%s.encap(%s)' % (nm, stmt), [dict(outer, tunnel=kind, traw=traw, inner=e, inner_raw=(e['traw'] if 'tunnel' in e else inner_raw)) for e in exps]
        return wrap


def build(r, raw, kinds=None, quick=True):
    s = Scen(r, raw)
    k = r.choice(kinds or ['tcp', 'udp', 'unicast', 'broadcast', 'dnshost', 'icmp', 'datagram', 'frag', 'tunnel', 'sized', 'tunbc'])
    if k == 'tcp': s.tcp(2 + r.below(6))
    elif k == 'udp': s.udp(1 + r.below(4))
    elif k == 'unicast': s.unicast(); s.unicast()
    elif k == 'broadcast': s.broadcast(None); s.broadcast(r.below(2 ** 32) if r.chance(1, 2) else None)
    elif k == 'dnshost': s.dnshost()
    elif k == 'icmp': s.icmp(2 + r.below(5))
    elif k == 'datagram': s.datagram(); s.datagram()
    elif k == 'frag': s.frag(big=r.choice([8192, 8200, 16385, 65000]) if r.chance(1, 5) else None)
    elif k in ('icmp-sweep', 'udp-sweep', 'tcp-sweep'):
        # every payload length 0..95 once on one flow (a code path specialised for ONE message length is otherwise hit only by luck)
        SWEEP.extend(range(0, 96))
        if k == 'icmp-sweep': s.icmp(96)
        elif k == 'udp-sweep': s.udp(96)
        else: s.tcp(96)
        del SWEEP[:]
    elif k == 'opt-grid': s.optgrid()
    elif k == 'pieces': s.pieces()
    elif k == 'port-classes': s.portclasses()
    elif k == 'fan-out': s.fanout()
    elif k == 'non-emitting': s.nonemit()
    elif k == 'addr-sum-tcp': s.addrsum(6)
    elif k == 'addr-sum-udp': s.addrsum(17)
    elif k == 'frag-edge': s.fragedge()
    elif k == 'icmp-long': s.icmp(150)          # long histories: a wide sample of checksum values per segment kind
    elif k == 'udp-long': s.udp(100)
    elif k == 'tcp-long': s.tcp(80)
    elif k == 'tunbc':
        # link-layer broadcast / multicast traffic carried inside each kind of tunnel: the OUTER header still belongs to the tunnel end points
        for kind in ['vxlan', 'gre', 'erspan1', 'erspan2']:
            w = s.tunnel_wrap(kind)
            s.broadcast(None, wrap=w)
            if r.chance(1, 2): s.unicast(wrap=w)
    elif k == 'sized': s.sized(r.choice([28, 29, 1500, 65535, 65534, 32768] if not quick else [28, 29, 1500, 9000, 65535]))
    else:
        w = s.tunnel_wrap(r.choice(['vxlan', 'gre', 'erspan1', 'erspan2']))
        if r.chance(1, 3):
            w2 = s.tunnel_wrap(r.choice(['vxlan', 'gre', 'erspan1', 'erspan2']))
            w1 = w
            w = lambda st, ex: w2(*w1(st, ex))
        which = r.below(5)
        if which == 0: s.tcp(2 + r.below(3), wrap=w)
        elif which == 1: s.udp(2, wrap=w, sizes=[0, 1, 9, 100])
        elif which == 2: s.icmp(2, wrap=w)
        elif which == 3: s.broadcast(None, wrap=w); s.broadcast(r.below(2 ** 32), wrap=w)      # a broadcast frame inside a tunnel: the outer header is still unicast
        else: s.unicast(wrap=w)
    return k, s


def facts(c, frame, raw):
    r = c.model.ask('oracle net %d %s' % (1 if raw else 0, sh_hex(frame)))
    return kvs(r) if r.startswith('ok') else None


def judge(c, frame, raw, e, which, rep, depth=0):
    """compare the Spec's reading of one real record with the expectation; `which` in {'ip','l4','eth'}"""
    f = facts(c, frame, raw)
    if f is None:
        c.violation('%s:unreadable' % which, 'oracle could not read a record', rep); return
    tag = 'd%d' % depth if depth else 'outer'
    if which == 'ip':
        fits = int(f['len']) <= 65535
        if fits and f['ipok'] != 'true':
            c.violation('ip:%s:invalid:%s' % (tag, e.get('tunnel') or ('l4-' + str(e['l4'][0] if isinstance(e['l4'], tuple) else e['l4']))),
                        'Spec.ipv4Ok is false (version/IHL, total length or header checksum) for proto %s' % f['proto'], rep)
        if not fits: c.count('oversize-datagram-not-judged')
        want = dict(src=e['src'], dst=e['dst'], proto=e['proto'], id=e['id'], ttl=e['ttl'], off=e['off']) if fits else {}
        bad = [k for k, v in want.items() if f[k] != str(v)]
        bad += [k for k in ('evil', 'df', 'mf') if fits and f[k] != str(bool(e[k])).lower()]
        if 'tot' in e and f['len'] != str(e['tot']): bad.append('len')
        if bad:
            c.violation('ip:%s:fields:%s' % (tag, ','.join(bad)), 'IPv4 header fields differ from what the script asked: %s' % {k: f.get(k) for k in bad}, rep)
    elif which == 'l4':
        l4 = e['l4']
        if l4 == 'tcp':
            if f['tcpok'] != 'true': c.violation('l4:tcp-csum', 'TCP checksum does not verify against the pseudo-header', rep)
        elif isinstance(l4, tuple) and l4[0] == 'udp':
            if f['udplen'] != 'true': c.violation('l4:udp-len', 'UDP length field != header + payload', rep)
            if f['sport'] != str(e['sport']) or f['dport'] != str(e['dport']): c.violation('l4:udp-ports', 'UDP ports differ', rep)
            if l4[1]:
                if f['udpcsum'] == '0': c.violation('l4:udp-csum-zero', 'UDP checksum field is zero although checksumming is enabled', rep)
                elif f['udpok'] != 'true': c.violation('l4:udp-csum', 'UDP checksum does not verify', rep)
                if f['udpcsum'] == '65535': c.count('udp-csum-ffff')
        elif isinstance(l4, tuple) and l4[0] == 'icmp':
            if f['icmpok'] != 'true': c.violation('l4:icmp-csum', 'ICMP checksum does not verify or code != 0', rep)
            got = (int(f['icmptype']), int(f['icmpid']), int(f['icmpseq']))
            if got != (l4[1], l4[2], l4[3] % 65536): c.violation('l4:icmp-fields', 'ICMP echo type/id/seq %s, expected %s' % (got, l4[1:]), rep)
    elif which == 'eth' and not raw:
        if e['eth'] == 'ip':
            if f['ethok'] != 'true': c.violation('eth:macs', 'Ethernet header is not (mac(dst ip), mac(src ip), 0x0800)', rep)
        elif isinstance(e['eth'], tuple):
            want = bytes([0xff] * 6) + bytes([0, 2]) + e['eth'][1].to_bytes(4, 'big') + b'\x08\x00'
            if frame[:14] != want:
                c.violation('eth:broadcast', 'broadcast frame header is %s, expected %s' % (frame[:14].hex(), want.hex()), rep)
            elif f['ethbc'] != 'true':
                c.violation('eth:broadcast-srcip', 'ipv4::udp::broadcast with srcip: Ethernet source is derived from the socket source address, not from the IP source in the header', rep)
    # peel a tunnel layer and judge the inner packet too
    if 'tunnel' in e:
        d = frame if raw else frame[14:]
        a = c.model.ask('oracle decap %s %s' % (e['tunnel'], sh_hex(d)))
        if not a.startswith('ok'):
            c.violation('%s:tunnel-undecodable' % which, 'cannot peel %s layer' % e['tunnel'], rep); return
        inner = core.unhex(kvs(a)['inner'])
        judge(c, inner, e['inner_raw'], e['inner'], which, rep, depth + 1)


def run_scenario(c, r, which, kinds=None, project=None):
    raw = r.chance(1, 3)
    kind, s = build(r, raw, kinds, c.quick)
    src = s.program()
    impl, model = progdiff.run_both(c, src)
    progdiff.compare(c, src, impl, model, 'net:' + kind, project=project(raw) if project else None, times=False)
    key = None
    rep = dict(src=src.decode()[:4000])
    if impl['outcome'][0] == 'panic':
        c.violation('%s:panic' % which, 'implementation panicked: %s' % (impl['outcome'][1],), rep)
    elif impl['outcome'][0] == 'success':
        recs = [x[1] for x in progdiff.pcap_records(impl['file'] or b'')]
        if len(recs) != len(s.exp):
            c.violation('%s:count' % which, 'scenario expects %d records, file has %d' % (len(s.exp), len(recs)), rep)
        else:
            for fr, e in zip(recs, s.exp):
                traw = e.get('traw', raw) if 'tunnel' in e else raw
                judge(c, fr, traw, e, which, rep)
                c.count('record:' + (e.get('tunnel') or (e['l4'][0] if isinstance(e['l4'], tuple) else str(e['l4']))))
            c.traces_validated += 1
            if recs: key = (kind, raw, len(recs), hash(src))
    else:
        c.count('scenario-failed:' + str(impl['outcome'][1]))
    c.count('scenario:' + kind)
    c.case(key, dict(kind=kind, raw=raw, src=src.decode()[:500]) if key else None)
    return kind, s, impl
