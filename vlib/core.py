"""Shared infrastructure for the checks: processes, builds, RNG, evidence, verdicts."""
import hashlib, json, os, re, shutil, subprocess, sys, tempfile, time

VERIF = os.path.dirname(os.path.dirname(os.path.abspath(__file__)))
REPO = os.environ.get('VERIF_REPO', '/repo')    # overridden only by tools/par_seeded.sh (scratch worktrees)
LEAN = os.path.join(VERIF, 'lean')
HARNESS_DIR = os.path.join(VERIF, 'harness')
HARNESS = os.path.join(HARNESS_DIR, 'target', 'debug', 'harness')
CLI_TARGET = os.path.join(VERIF, 'target-cli')
CLI = os.path.join(CLI_TARGET, 'debug', 'resynth')
MODEL = os.path.join(LEAN, '.lake', 'build', 'bin', 'resynth_model')
ENV = dict(os.environ, CARGO_NET_OFFLINE='true', CARGO_TERM_COLOR='never')
CARGO = ['cargo']
HARNESS_TARGET = None
# Coverage mode (tools/coverage.sh): instrumented builds in a scratch directory, never used by a registered command.
COV = os.environ.get('VERIF_COVERAGE')
if COV:
    HARNESS_TARGET = os.path.join(COV, 'target-h')
    HARNESS = os.path.join(HARNESS_TARGET, 'debug', 'harness')
    CLI_TARGET = os.path.join(COV, 'target-cli')
    CLI = os.path.join(CLI_TARGET, 'debug', 'resynth')
    CARGO = ['cargo', '+nightly']
    ENV['RUSTFLAGS'] = '--cfg resynth_verif -C instrument-coverage'
    ENV['LLVM_PROFILE_FILE'] = os.environ['LLVM_PROFILE_FILE'] = os.path.join(COV, 'prof', '%p-%m.profraw')


class Rng:
    """xorshift64*; every random choice of a run derives from VERIF_SEED through this."""
    def __init__(self, seed):
        self.s = (seed * 0x9E3779B97F4A7C15 + 0x1234567) & 0xFFFFFFFFFFFFFFFF or 1
    def next(self):
        x = self.s
        x ^= (x >> 12); x ^= (x << 25) & 0xFFFFFFFFFFFFFFFF; x ^= (x >> 27)
        self.s = x
        return (x * 0x2545F4914F6CDD1D) & 0xFFFFFFFFFFFFFFFF
    def below(self, n):
        return self.next() % n if n > 0 else 0
    def chance(self, num, den):
        return self.below(den) < num
    def choice(self, seq):
        return seq[self.below(len(seq))]
    def bytes(self, n):
        return bytes(self.below(256) for _ in range(n))
    def fork(self, tag):
        h = int.from_bytes(hashlib.sha256(('%d/%s' % (self.s, tag)).encode()).digest()[:8], 'big')
        return Rng(h)


class LineProc:
    """One request per line, one '@@ ' response per line (other stdout lines are library chatter)."""
    def __init__(self, argv, name):
        self.argv, self.name = argv, name
        self.n = 0
        self.start()
    def start(self):
        self.p = subprocess.Popen(self.argv, stdin=subprocess.PIPE, stdout=subprocess.PIPE,
                                  stderr=subprocess.DEVNULL, text=True, encoding='utf-8', errors='replace', bufsize=1)
    def ask(self, req):
        self.n += 1
        try:
            self.p.stdin.write(req + '\n'); self.p.stdin.flush()
            while True:
                ln = self.p.stdout.readline()
                if not ln:
                    raise BrokenPipeError
                if ln.startswith('@@ '):
                    return ln[3:].rstrip('\n')
        except (BrokenPipeError, OSError):
            rc = self.p.poll()
            self.start()
            return 'DIED rc=%s' % rc
    def close(self):
        try:
            self.p.stdin.close(); self.p.wait(timeout=5)
        except Exception:
            self.p.kill()


def run(cmd, cwd=None, timeout=3600, env=None):
    p = subprocess.run(cmd, cwd=cwd, capture_output=True, text=True, timeout=timeout, env=env or ENV)
    return p.returncode, p.stdout + p.stderr


def sh_hex(b):
    return b.hex() if b else '-'


def unhex(s):
    return b'' if s == '-' else bytes.fromhex(s)


# ---------------------------------------------------------------------------------------------
# builds (always from /repo's current working tree)

_built = {}

def build_harness():
    if 'harness' in _built: return
    lock = os.path.join(HARNESS_DIR, 'Cargo.lock')
    src = os.path.join(REPO, 'Cargo.lock')
    seed = os.path.join(HARNESS_DIR, 'Cargo.lock.seed')
    if not os.path.exists(lock):
        shutil.copy(src if os.path.exists(src) else seed, lock)
    rc, out = run(CARGO + ['build', '--offline'] + (['--target-dir', HARNESS_TARGET] if HARNESS_TARGET else []), cwd=HARNESS_DIR)
    if rc != 0:
        raise BuildError('harness build failed', out)
    _built['harness'] = True

def build_cli():
    if 'cli' in _built: return
    rc, out = run(CARGO + ['build', '--offline', '--manifest-path', os.path.join(REPO, 'Cargo.toml'),
                   '--target-dir', CLI_TARGET])
    if rc != 0:
        raise BuildError('resynth build failed', out)
    _built['cli'] = True

def gen_tables():
    if 'gen' in _built: return
    build_harness()
    rc, out = run([sys.executable, os.path.join(VERIF, 'tools', 'gen_tables.py'), HARNESS])
    if rc != 0:
        raise BuildError('gen_tables failed (the translator could not read the library tables)', out)
    _built['gen'] = True

def lake_build(targets):
    gen_tables()
    rc, out = run(['lake', 'build'] + list(targets), cwd=LEAN)
    return rc, out

def build_model():
    if 'model' in _built: return
    rc, out = lake_build(['resynth_model'])
    if rc != 0:
        raise BuildError('model driver build failed', out)
    _built['model'] = True


class BuildError(Exception):
    def __init__(self, msg, out):
        super().__init__(msg); self.out = out


# ---------------------------------------------------------------------------------------------
# running the real binary

def run_cli(src, files=None, extra_args=(), env=None, cwd=None, name='t', preexec=None, keep=False, prefill=None):
    """Compile `src` (bytes) with the real binary in a scratch directory.
    Returns dict(rc, stdout, pcap (bytes or None), dir listing)."""
    d = tempfile.mkdtemp(prefix='rsv')
    try:
        ind = os.path.join(d, 'in'); outd = os.path.join(d, 'out')
        os.mkdir(ind); os.mkdir(outd)
        inp = os.path.join(ind, name + '.rsyn')
        with open(inp, 'wb') as f: f.write(src)
        for fn, data in (files or {}).items():
            with open(os.path.join(ind, fn), 'wb') as f: f.write(data)
        if prefill is not None:     # something is already at the output path (an older, possibly longer, file)
            with open(os.path.join(outd, name + '.pcap'), 'wb') as f: f.write(prefill)
        e = dict(os.environ if env is None else env)
        p = subprocess.run([CLI] + list(extra_args) + ['--out-dir', outd, inp], capture_output=True,
                           cwd=cwd or ind, env=e, timeout=120, preexec_fn=preexec)
        out = os.path.join(outd, name + '.pcap')
        pcap = open(out, 'rb').read() if os.path.exists(out) else None
        return dict(rc=p.returncode, stdout=p.stdout.decode('utf-8', 'replace'), stderr=p.stderr.decode('utf-8', 'replace'),
                    pcap=pcap, inp=inp)
    finally:
        if not keep:
            shutil.rmtree(d, ignore_errors=True)


DIAG_RE = re.compile(r'^(?P<file>.*?\.rsyn)(?::(?P<line>\d+):(?P<col>\d+))?: error: process_file: (?P<msg>.*)$', re.M)

def classify_cli(res):
    """Map the binary's behaviour to the model's outcome vocabulary."""
    out = re.sub(r'\x1b\[[0-9;]*m', '', res['stdout'])      # --color always: the words error/ok/warning are wrapped in SGR sequences
    if res['rc'] not in (0, 1) or 'panicked at' in res['stderr']:
        m = re.search(r"panicked at ([^\n]*)\n?([^\n]*)", res['stderr'])
        return ('panic', (m.group(1) + ' ' + m.group(2)).strip() if m else 'rc=%d' % res['rc'])
    m = None
    for m in DIAG_RE.finditer(out): pass
    if res['rc'] == 0 and m is None:
        return ('success',)
    if m is None:
        return ('failure', '?', None, out[-200:])
    msg = m.group('msg')
    if msg.startswith('Lex Error'): cls = 'Lex'
    elif msg.startswith('Parse Error'): cls = 'Parse'
    elif msg.startswith('Import Error'): cls = 'Import'
    elif msg.startswith('Name Error'): cls = 'Name'
    elif msg.startswith('Type Error'): cls = 'Type'
    elif msg.startswith('Runtime Error'): cls = 'Runtime'
    elif msg.startswith('Memory Error'): cls = 'Memory'
    elif msg.startswith('Variable '): cls = 'MultipleAssign'
    else: cls = 'Io'
    loc = (int(m.group('line')), int(m.group('col'))) if m.group('line') else (0, 0)
    return ('failure', cls, loc, msg)


def parse_model_prog(resp):
    """`success|failure CLS L:C D|panic S  file=HEX warnings=.. times=..`"""
    head, rest = resp.split(' file=', 1)
    fh, rest = rest.split(' warnings=', 1)
    wh, th = rest.split(' times=', 1)
    parts = head.split(' ')
    if parts[0] == 'success': outcome = ('success',)
    elif parts[0] == 'failure':
        l, c = parts[2].split(':')
        outcome = ('failure', parts[1], (int(l), int(c)), parts[3] if len(parts) > 3 else '-')
    else: outcome = ('panic', ' '.join(parts[1:]))
    return dict(outcome=outcome, file=unhex(fh), warnings=[w for w in wh.split(',') if w],
                times=[int(t) for t in th.split(',') if t])


def model_prog_req(src, budget=None, files=None):
    fs = ' '.join('%s=%s' % (sh_hex(k.encode() if isinstance(k, str) else k), sh_hex(v)) for k, v in (files or {}).items())
    return 'prog %s %s %s' % (sh_hex(src), '-' if budget is None else budget, fs)
