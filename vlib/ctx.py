"""Per-run context: proof audit, correspondence/oracle bookkeeping, verdict, evidence."""
import glob, json, os, re, subprocess, sys, time
from . import core
from .core import VERIF, LEAN, Rng, LineProc

ALLOWED_AXIOMS = {'propext', 'Classical.choice', 'Quot.sound'}
FORBIDDEN = re.compile(r'\b(sorry|admit|native_decide|bv_decide|implemented_by|unsafe)\b|^\s*axiom\s|maxHeartbeats\s+0\b')

TRUSTED_BASE = [
    "Lean 4.33.0 kernel; axioms per theorem as printed by tools/Audit.lean (subset of propext, Classical.choice, Quot.sound)",
    "Lean compiler/runtime executing the same Model/Spec definitions in the line-protocol driver",
    "the correspondence campaign of this run (generators, harness, canonicalisation) tying Model/*.lean to /repo's code",
    "tools/gen_tables.py translating the library tables of /repo into Gen/*.lean",
    "rustc/cargo dev profile, regex crate, Rust std (from_str, BufWriter, File)",
]


class Ctx:
    def __init__(self, pid, tier, seed):
        self.pid, self.tier, self.seed = pid, tier, seed
        self.rng = Rng(seed)
        self.quick = tier == 'quick'
        self.evaluations = 0
        self.nontrivial = set()
        self.samples = []
        self.dist = {}
        self.disagreements = []      # model != implementation
        self.violations = []         # oracle says the property fails on the implementation
        self.broken = []             # proof / build / tie failures
        self.known_hits = {}
        self.traces_validated = 0
        self.theorems = []
        self.discharged = 0
        self.exhaustive = False
        self.rule = ''
        self.assumptions = []
        self.extra = {}
        self._harness = self._model = None
        self.known = json.load(open(os.path.join(VERIF, 'known_findings.json')))['findings']

    # -- processes
    def prepare(self, mod):
        core.build_harness(); core.build_cli(); core.gen_tables(); core.build_model()
    @property
    def harness(self):
        if self._harness is None: self._harness = LineProc([core.HARNESS], 'harness')
        return self._harness
    @property
    def model(self):
        if self._model is None: self._model = LineProc([core.MODEL], 'model')
        return self._model

    # -- proofs
    def check_proofs(self, mod):
        mods = getattr(mod, 'PROOF_MODULES', ['Resynth.Props.' + self.pid])
        rc, out = core.lake_build(mods)
        if rc != 0:
            self.tie_broken('proof', 'lake build %s failed' % ' '.join(mods), out[-4000:])
            return
        for m in mods:
            rc, out = core.run(['lake', 'env', 'lean', '--run', os.path.join(VERIF, 'tools', 'Audit.lean'), m], cwd=LEAN)
            if rc != 0:
                self.tie_broken('proof', 'audit of %s failed' % m, out[-2000:]); continue
            for ln in out.splitlines():
                if ln.startswith('THEOREM '):
                    _, name, _, axs = (ln.split(' ', 3) + [''])[:4]
                    axs = [x for x in axs.split(',') if x]
                    bad = [x for x in axs if x not in ALLOWED_AXIOMS]
                    self.theorems.append(name)
                    if bad:
                        self.tie_broken('proof', 'theorem %s depends on %s' % (name, ','.join(bad)), ln)
                    else:
                        self.discharged += 1
        # textual audit of everything the library contains
        for f in glob.glob(os.path.join(LEAN, 'Resynth', '**', '*.lean'), recursive=True):
            txt = open(f, encoding='utf-8').read()
            txt = re.sub(r'/-.*?-/', '', txt, flags=re.S)
            for i, ln in enumerate(txt.splitlines()):
                ln = ln.split('--')[0]
                if FORBIDDEN.search(ln):
                    self.tie_broken('proof', 'forbidden construct in %s' % os.path.relpath(f, VERIF), ln.strip())
        if self.tier == 'thorough':
            for m in mods:
                rc, out = core.run(['lake', 'env', 'leanchecker', m], cwd=LEAN, timeout=3600)
                self.extra.setdefault('leanchecker', {})[m] = rc
                if rc != 0:
                    self.tie_broken('proof', 'leanchecker rejected %s' % m, out[-2000:])

    # -- bookkeeping
    def count(self, key, n=1):
        self.dist[key] = self.dist.get(key, 0) + n
    def case(self, key=None, sample=None):
        self.evaluations += 1
        if key is not None: self.nontrivial.add(key)
        if sample is not None and len(self.samples) < 6: self.samples.append(sample)
    def disagree(self, what, request, impl, model, extra=None):
        self.disagreements.append(dict(kind=what, request=request, impl=impl, model=model, extra=extra))
    def violation(self, sig, detail, replay):
        """oracle failure on the real implementation; `sig` identifies the failing call site / input class"""
        for k in self.known:
            if k['property'] == self.pid and k.get('status', 'open') == 'open' and re.fullmatch(k['sig'], sig):
                self.known_hits.setdefault(k['id'], (k, 0))
                self.known_hits[k['id']] = (k, self.known_hits[k['id']][1] + 1)
                return
        self.violations.append(dict(sig=sig, detail=detail, replay=replay))
    def tie_broken(self, kind, msg, detail=''):
        self.broken.append(dict(kind=kind, msg=msg, detail=detail))

    # -- verdict
    def finish(self, wall):
        for p in (self._harness, self._model):
            if p: p.close()
        os.makedirs(os.path.join(VERIF, 'replay'), exist_ok=True)
        rc = 0
        lines = []
        for kid, (k, n) in sorted(self.known_hits.items()):
            lines.append('KNOWN-FINDING: property=%s %s (%s; %d occurrences this run)' % (self.pid, k['what'], kid, n))
        n = 0
        seen = set()
        for v in self.violations:
            if v['sig'] in seen: continue
            seen.add(v['sig'])
            n += 1
            path = os.path.join('replay', '%s-%d.json' % (self.pid, n))
            json.dump(dict(property=self.pid, kind='property-violated-on-implementation', **v),
                      open(os.path.join(VERIF, path), 'w'), indent=1)
            lines.append('VIOLATION property=%s replay=%s' % (self.pid, path))
            rc = 1
        if not self.violations and (self.broken or self.disagreements):
            # a proof obligation or the correspondence no longer checks and no failing input was found
            n += 1
            path = os.path.join('replay', '%s-%d.json' % (self.pid, n))
            json.dump(dict(property=self.pid, kind='obligation-or-correspondence-broken',
                           broken=self.broken[:20], disagreements=self.disagreements[:20],
                           note='the search of this run found no input on which the property itself fails'),
                      open(os.path.join(VERIF, path), 'w'), indent=1)
            lines.append('VIOLATION property=%s replay=%s no-failing-input-found' % (self.pid, path))
            rc = 1
        elif self.violations and (self.broken or self.disagreements):
            path = os.path.join('replay', '%s-ties.json' % self.pid)
            json.dump(dict(property=self.pid, broken=self.broken[:20], disagreements=self.disagreements[:20]),
                      open(os.path.join(VERIF, path), 'w'), indent=1)
        for b in self.broken[:5]:
            lines.append('BROKEN(%s): %s' % (b['kind'], b['msg']))
        for d in self.disagreements[:5]:
            lines.append('DISAGREEMENT(%s): request=%s impl=%s model=%s' % (d['kind'], str(d['request'])[:200], str(d['impl'])[:160], str(d['model'])[:160]))
        ev = dict(
            property_id=self.pid, tier=self.tier, seed=self.seed, level='proof',
            coverage=dict(
                obligations=max(len(self.theorems), 1), discharged=self.discharged if self.theorems else 0,
                checker_cmd='cd lean && lake build Resynth.Props.%s && lake env lean --run ../tools/Audit.lean Resynth.Props.%s' % (self.pid, self.pid),
                trusted_base=TRUSTED_BASE,
                theorems=self.theorems,
                evaluations=self.evaluations, distinct_nontrivial=len(self.nontrivial),
                rule=self.rule, samples=self.samples[:6],
                traces_validated_against_impl=self.traces_validated,
                disagreements_checked=len(self.disagreements),
                distribution=dict(sorted(self.dist.items(), key=lambda kv: -kv[1])[:80]),
                exhaustive=self.exhaustive, known_findings_hit=sorted(self.known_hits), **self.extra),
            assumptions=self.assumptions, violations=len(seen) + (1 if rc and not seen else 0), wall_s=round(wall, 1))
        evdir = os.path.join(core.COV, 'evidence') if core.COV else os.path.join(VERIF, 'evidence')
        os.makedirs(evdir, exist_ok=True)
        json.dump(ev, open(os.path.join(evdir, self.pid + '.json'), 'w'), indent=1)
        for l in lines: print(l)
        print('%s %s tier=%s seed=%d theorems=%d/%d evaluations=%d nontrivial=%d disagreements=%d violations=%d known=%d wall=%.0fs'
              % ('FAIL' if rc else 'PASS', self.pid, self.tier, self.seed, self.discharged, len(self.theorems),
                 self.evaluations, len(self.nontrivial), len(self.disagreements), len(seen), len(self.known_hits), wall))
        return rc
