#!/bin/bash
# Confirm a seeded change produced in a scratch worktree and file it under /verif/seeded/<name>:
#   builds + tests pass with the change, demo fails with it and passes without it.
#   tools/confirm_seeded.sh /tmp/wt_C16 C16-a
set -u
wt="$1"; name="$2"
cd "$wt" || exit 2
export CARGO_NET_OFFLINE=true
git apply --check -R seeded/patch.diff 2>/dev/null || { git checkout -q -- src pkt ezpkt docs 2>/dev/null; git apply seeded/patch.diff || { echo "CONFIRM $name: patch does not apply"; exit 1; }; }
cargo build --offline >/dev/null 2>&1 || { echo "CONFIRM $name: does not build"; exit 1; }
t=$(cargo test --workspace --offline 2>&1 | grep -E "^test result" | awk '{p+=$4; f+=$6} END {print p" passed "f" failed"}')
bash seeded/demo.sh >/tmp/confirm_$name.with 2>&1; with=$?
git apply -R seeded/patch.diff || { echo "CONFIRM $name: cannot revert"; exit 1; }
cargo build --offline >/dev/null 2>&1
bash seeded/demo.sh >/tmp/confirm_$name.without 2>&1; without=$?
git apply seeded/patch.diff
echo "CONFIRM $name: tests: $t; demo with change rc=$with, without rc=$without"
if [ "$with" != 0 ] && [ "$without" = 0 ] && echo "$t" | grep -q "^48 passed 0 failed"; then
  mkdir -p /verif/seeded/$name && cp -r seeded/. /verif/seeded/$name/ && echo "  filed under /verif/seeded/$name"
else
  echo "  NOT confirmed"; tail -3 /tmp/confirm_$name.with /tmp/confirm_$name.without
fi
