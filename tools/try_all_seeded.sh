#!/bin/bash
# Apply every seeded change in turn (or those matching a glob), run the check of its property, report.
#   tools/try_all_seeded.sh ['C??c-*']
cd "$(dirname "$0")/.."
pat="${1:-*}"
for d in seeded/$pat/; do
  n=$(basename "$d")
  out=$(tools/try_seeded.sh "$n" 2>&1)
  if echo "$out" | grep -q "VIOLATION property=[A-Z0-9]* replay=[^ ]*$"; then v="CAUGHT(direct)";
  elif echo "$out" | grep -q "no-failing-input-found"; then v="CAUGHT(no-failing-input-found)";
  elif echo "$out" | grep -q "^\[.*\] PASS"; then v="MISSED"; else v="??"; fi
  echo "$n: $v"
done
