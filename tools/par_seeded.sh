#!/bin/bash
# Regression over the seeded changes, in parallel: every seeded change matching the glob is applied to a SCRATCH
# worktree of /repo (never to /repo itself) and judged by a scratch copy of /verif pointed at that worktree
# (VERIF_REPO).  Development aid only: the registered checks and the committed evidence always come from
# /verif run against /repo (tools/try_seeded.sh does that for one seeded change).
#
#   tools/par_seeded.sh ['C??d-*'] [jobs]          -> one line per seeded change: CAUGHT(direct) | CAUGHT(no-failing-input-found) | MISSED
set -u
cd "$(dirname "$0")/.."
pat="${1:-*}"; jobs="${2:-5}"
base=/tmp/parseed
rm -rf "$base"; mkdir -p "$base"
seeds=(); for d in seeded/$pat/; do [ -f "$d/patch.diff" ] && seeds+=("$(basename "$d")"); done
[ ${#seeds[@]} -gt 0 ] || { echo "no seeded change matches $pat"; exit 2; }
worker() {
  i=$1; slot=$base/s$i
  mkdir -p "$slot"
  git -C /repo worktree add -q --detach "$slot/repo" HEAD || return
  rsync -a --exclude .git --exclude replay --exclude evidence --exclude coverage /verif/ "$slot/verif/"
  sed -i "s#\"/repo#\"$slot/repo#g" "$slot/verif/harness/Cargo.toml"
  export VERIF_REPO="$slot/repo"
  n=0
  for name in "${seeds[@]}"; do
    n=$((n+1)); [ $(( (n - 1) % jobs )) -eq $((i - 1)) ] || continue
    prop=$(python3 -c "import json; print(json.load(open('seeded/$name/meta.json'))['property'])")
    if ! git -C "$slot/repo" apply "$PWD/seeded/$name/patch.diff" 2>/dev/null; then echo "$name: patch does not apply"; continue; fi
    out=$(cd "$slot/verif" && ./check "$prop" --tier quick 2>&1)
    git -C "$slot/repo" checkout -q -- .
    [ -n "${PAR_KEEP_OUT:-}" ] && { mkdir -p "$PAR_KEEP_OUT"; echo "$out" | grep -v "^ *Compiling" | tail -40 > "$PAR_KEEP_OUT/$name.log"; }
    if echo "$out" | grep -q "^VIOLATION property=[A-Z0-9]* replay=[^ ]*$"; then v="CAUGHT(direct)";
    elif echo "$out" | grep -q "no-failing-input-found"; then v="CAUGHT(no-failing-input-found)";
    elif echo "$out" | grep -q "^PASS"; then v="MISSED"; else v="?? $(echo "$out" | tail -1 | cut -c1-120)"; fi
    echo "$name: $v"
  done
  git -C /repo worktree remove --force "$slot/repo"
}
for i in $(seq 1 "$jobs"); do worker "$i" & done
wait
git -C /repo worktree prune
rm -rf "$base"
