#!/usr/bin/env python3
"""Regenerates MANIFEST.json from the table below (claimed properties only; the rest go to not_applicable)."""
import json, os, subprocess
V = os.path.dirname(os.path.dirname(os.path.abspath(__file__)))
props = [json.loads(l) for l in open(os.path.join(V, 'properties.jsonl'))]
NOTE = ("Trusted: Lean 4.33 kernel + axioms {propext, Classical.choice, Quot.sound} (audited per theorem on every run); the "
        "hand-written Lean model is tied to /repo by the correspondence campaign of each run (real binary / in-process harness "
        "vs compiled model driver on generated inputs), tables by tools/gen_tables.py; Spec predicates are additionally run "
        "on the implementation's own output. A theorem speaks about the model; the implementation is covered where the campaign compared them.")
CLAIMS = {
    'C01': ("Theorems: the independent pcap reader recovers header and every record from header ++ records for all sizes < 2^32; write_packet "
            "restores the packet (headroom borrowing unobservable) for every size; for every program and library the output file of a "
            "successful run is header ++ the records of the expression statements' packets in statement/generation order; let/import "
            "write nothing; a bare reference to a stored packet writes it each time without executing anything. Correspondence: "
            "random programs, examples, frame sizes 14..65535; Spec.parsePcap on the real file.", "7 C01",
            "Lean proof (interpreter output invariant, reader/writer round trip) + byte-exact correspondence"),
    'C11': ("Theorems: argvec = declarative three-phase Spec.bind for every well-formed signature and every call (accept/reject, vector, "
            "tail; never panics); rejected iff one of six named reasons; 16x16 compatibility table = prose; every signature of the "
            "regenerated library table is well-formed (decide +kernel). Correspondence: all real signatures x call shapes through the "
            "real FuncDef::argvec.", "7 C11", "Lean proof (state machine = declarative convention) + exhaustive small-scope correspondence"),
    'C12': ("Theorems over arbitrary statement lists: sec/nsec split exact below 2^32 s, timestamps monotone, strictly increasing between "
            "packet-emitting statements, gap of a statement a function of its value only, a jump of d shifts exactly the later records by d "
            "(all four units). Correspondence + Spec.parsePcap times of real files incl. twin programs with an inserted jump.", "7 C12",
            "Lean proof (clock invariants, shift simulation) + twin-program differential runs"),
    'C19': ("Theorems: BufWriter/device accounting; for every program and every budget k < output length the run is a failure (Io), never "
            "success, never panic; success implies the complete file; device content always a prefix. Fault enumeration on the real binary: "
            "RLIMIT_FSIZE at every byte offset (small programs) / all buffer boundaries +-1 (large), /dev/full, missing directories, "
            "missing input and data files. OS write(2)/BufWriter behaviour is an assumption confirmed by the enumeration.", "7 C19",
            "Lean proof (lock-step simulation of budgeted vs unlimited writer) + fault enumeration on the real binary"),
    'C09': ("Theorems: the LR automaton never panics (stack invariant, fuel bound), parseAll = recursive-descent Spec.parse for EVERY token list "
            "(accept/reject, statements, error index), Spec.parse sound+complete for the inductive grammar, viable-prefix error position, "
            "line splitting irrelevant. Correspondence: exhaustive kind sequences + grammar-directed sentences and mutants through the real "
            "lexer+parser; Spec.parse run on the real tokens.", "7 C09", "Lean proof (LR/recursive-descent simulation) + correspondence"),
    'C10': ("Theorems: Lex.line = declarative Spec.lexLine (ordered rule list, longest match per rule, first rule wins) for every line and "
            "pending string; totality; exact byte columns; tiling; error at the first character no rule matches. Correspondence: all strings "
            "to length 3/4 over a 32-class alphabet + random lines through the real Lexer::line.", "7 C10",
            "Lean proof (scanner = rule-list spec) + exhaustive small-scope correspondence"),
    'C13': ("Theorems (text-level half): blank/comment lines, trailing comments, edge whitespace are no-ops for the lexer; unused literal lets "
            "and source positions are unobservable in the output; batch = map. The environment half cannot be a theorem: differential runs "
            "under varied TZ/LANG/HOME/cwd/outdir/batch order, strace audit (no clock/pid/cwd reads), source scan (hash maps never iterated).",
            "7 C13", "Lean proof (lexer/interpreter no-op lemmas) + environment differential runs + syscall audit (partial: environment clause not a theorem)"),
    'C14': ("Theorems for every library table: rebinding rejected, use-before-bind/import rejected, re-import no-op, statements in order, "
            "arguments left-to-right exactly once (trace semantics), let-bound values frozen and re-emittable in any order, inlining of "
            "pure lets and renaming of positions leave the output unchanged. Correspondence + metamorphic relations on the real binary.",
            "7 C14", "Lean proof (interpreter simulation lemmas) + metamorphic differential runs"),
    'C02': ("Theorems for every builder (TCP flow ops, UDP flow/unicast/broadcast/DNS/VXLAN, ICMP, ipv4::datagram, fragments, GRE/ERSPAN) and "
            "all payloads/options with total length <= 65535: Spec.ipv4Ok (version/IHL, total length, checksum) and every requested field reads "
            "back; nesting by induction over tunnel layers. Correspondence + Spec oracle on real records at every depth.", "7 C02",
            "Lean proof (checksum arithmetic by omega, builder invariants, induction over layers) + correspondence"),
    'C03': ("Theorems: TCP checksum verifies for every flow op and payload parity; UDP checksum non-zero and verifying (0 -> 0xffff), UDP "
            "length exact for all UDP builders; ICMP echo checksum/type/code/id and the k-th echo carries seq k mod 2^16 over every history. "
            "Correspondence + Spec oracle incl. crafted sums that fold to zero.", "7 C03",
            "Lean proof (one's-complement arithmetic, history induction) + correspondence"),
    'C18': ("Theorems (no hypotheses): for every builder, framed = Spec.ethFrame(raw) with MACs 00:02+address octets from the packet's own "
            "IP header, broadcast destination all-ones; ipv4::datagram always framed. One clause fails by design (broadcast srcip:) and is a "
            "known finding with a proved counter-witness. Correspondence: every scenario compiled framed and raw by the real binary.", "7 C18",
            "Lean proof (builder equations) + framed/raw differential runs"),
    'C06': ("Theorems: one outer per inner in order, byte-identical payload, header fields per kind, ERSPAN II/GRE sequence counts packets "
            "from zero across calls, unwrap (wrap layers inner) = inner for every nesting list. Correspondence: all nestings to depth 2/3 "
            "+ random to depth 5; real pcap peeled by the Spec decoders and compared with the un-encapsulated run.", "7 C06",
            "Lean proof (decoder round trips, history invariant, induction over layers) + correspondence"),
    'C07': ("Theorems: every fragment decodes to the requested slice/fields, MF iff bytes remain, tail/datagram, RFC 791 reassembly of any "
            "covering set in any permutation returns the payload. Correspondence: exhaustive (n,off,len) grid + random covering sets; "
            "Spec.decodeFrag/reassemble on the real fragments.", "7 C07",
            "Lean proof (slice algebra, permutation-invariant reassembly) + correspondence"),
    'C04': ("Theorems (induction over arbitrary op histories, all ISNs, wrap-around): counters track consumed sequence space, every "
            "emitted segment has the expected seq/ack/flags, reassembly of any permutation of the segments recovers the scripted "
            "streams, overrides are local. Correspondence: exhaustive short histories + random histories through the real binary; "
            "the Lean spec is also evaluated on the real segments.", "7 C04",
            "Lean proof (invariant + refinement to stream spec) + model/implementation correspondence"),
}
man = json.load(open(os.path.join(V, 'MANIFEST.json')))
checks = []
for p in props:
    pid = p['id']
    if pid in CLAIMS and os.path.exists(os.path.join(V, 'vlib', 'props', pid + '.py')):
        text, ref, tech = CLAIMS[pid]
        checks.append(dict(property_id=pid, quick_cmd='./check %s --tier quick' % pid, thorough_cmd='./check %s --tier thorough' % pid,
                           evidence_file='evidence/%s.json' % pid, replay_cmd_template='./check %s --replay {path}' % pid,
                           engine='lean-proof+correspondence',
                           level_claimed=dict(category='proof', text=text, design_ref='DESIGN.md section ' + ref),
                           level_note=NOTE, technique=tech))
man['checks'] = checks
man['not_applicable'] = [dict(property_id=p['id'], reason='check not built yet (in progress, see DESIGN.md section 12)')
                         for p in props if p['id'] not in [c['property_id'] for c in checks]]
man['engines'] = [dict(name='lean-proof+correspondence', path='check', serves_properties=[c['property_id'] for c in checks],
                       kind_free_text='Lean 4 theorems over a hand-written model (lean/Resynth), audited for axioms; model tied to /repo by differential runs (harness/, real binary) and a table translator (tools/gen_tables.py); executable Spec predicates as oracle on real output')]
fixes = subprocess.run(['git', '-C', '/repo', 'log', '--format=%h %s'], capture_output=True, text=True).stdout.splitlines()
man['hooks']['source_commits'] = [l.split(' ')[0] for l in fixes if l.split(' ', 1)[1].startswith('verif hooks')]
man['notes'] = 'see DESIGN.md; fix: commits in /repo are listed in known_findings.json'
json.dump(man, open(os.path.join(V, 'MANIFEST.json'), 'w'), indent=1)
print('claimed:', [c['property_id'] for c in checks])
