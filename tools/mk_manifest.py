#!/usr/bin/env python3
"""Regenerates MANIFEST.json from the table below (claimed properties only; the rest go to not_applicable)."""
import json, os, subprocess
V = os.path.dirname(os.path.dirname(os.path.abspath(__file__)))
props = [json.loads(l) for l in open(os.path.join(V, 'properties.jsonl'))]
NOTE = ("Trusted: Lean 4.33 kernel + axioms {propext, Classical.choice, Quot.sound} (audited per theorem on every run); the "
        "hand-written Lean model is tied to /repo by the correspondence campaign of each run (real binary / in-process harness "
        "vs compiled model driver on generated inputs), tables by tools/gen_tables.py; Spec predicates are additionally run "
        "on the implementation's own output. A theorem speaks about the model; the implementation is covered where the campaign compared them.")
CLAIMS = {
    'C05': ("Theorems: plain text decodes to its UTF-8 bytes, a |..| section with any separator interleaving to its bytes, decoding distributes over "
            "concatenation of balanced literals, adjacent literals (same or next line) merge raw (an empty first literal included), every byte string is expressible; per builder "
            "(Props/C05Builders) the payload is the suffix of the frame after headers of fixed length. Correspondence + direct oracle: bytes chosen first, spelled at random "
            "(text, UTF-8, hex, adjacent/split literals, concat/crlflines, lets, integers, addresses, packets), placed in every payload-carrying "
            "builder and read back from the real pcap; bufio read sequences partition the buffer.", "7 C05",
            "Lean proof (string-literal decoder, lexer merging, payload-suffix lemma per builder) + ground-truth-by-construction payload runs"),
    'C08': ("Theorems: lexer total (C10), parser never panics and its goto loop terminates (C09), binder never panics, every coercion the "
            "binder lets through is defined, and for ALL 85 functions of the regenerated table exec never panics and returns the declared "
            "type on every well-bound argument vector; Props/C08File.file_total composes the layers: processFile never panics on ANY byte "
            "string; Props/C08Batch (command-line loop, Model/Batch.lean): reports independent of the other inputs, exit status 1 iff some "
            "input failed wherever it stands, good inputs' outputs complete and failed ones absent; Props/C08Loc: an error raised while executing a "
            "statement is located at a token of THAT statement (eval, addStmt, addStmts, up to processFile: the parser never builds the one tree "
            "shape for which the register would be stale; the line lies between the neighbouring semicolons); Props/C08Pos: every reported "
            "position is a byte of a line of the file (or, for a parse error at end of input, the last line one column past its end), and only "
            "I/O failures lack a position. Correspondence/oracle: every function x parameter x 15 value types + boundary values "
            "in-process, method sequences, reference shapes, source fuzz incl. invalid UTF-8, batches, nesting probes; fail-safe contract "
            "(exit status, diagnostic position, output removal) judged on the real binary. Native stack exhaustion is outside the model "
            "(known finding K04).", "7 C08", "Lean proof (no-panic theorems per layer, per-function over the regenerated table) + panic census on the real code (partial: native stack)"),
    'C15': ("Theorems: for every length-prefixed builder (len_u8/be16/be32/be64, fixed-width ints, TLS record/handshake/extension/SNI/certificates/"
            "ciphers/hellos, DHCP option, DNS RDATA) declared = following and parse(build parts ++ rest) = (parts, rest) whenever the length "
            "fits; nesting composes; bridge lemmas tie each pure builder to its exec arm. Correspondence: real builders called in-process at "
            "boundary sizes; output parsed by Spec/Framing.lean.", "7 C15", "Lean proof (round-trip lemmas per format) + in-process correspondence"),
    'C16': ("Theorems: dns::host query/response decode completely (ids, QR, question, ANCOUNT, answers) for all names of 1-63 byte labels and "
            "all address lists; socket pair mirrored; flag helpers = sum of named bits for all opcodes/rcodes (bit arithmetic, no enumeration); "
            "name/pointer/NetBIOS round trips, refusal above 15 bytes; DHCP header layout incl. truncation. Correspondence: real helpers "
            "called in-process; output decoded by Spec/Dns.lean.", "7 C16", "Lean proof (decoder round trips, bit-field arithmetic) + in-process correspondence"),
    'C17': ("Theorems: decimal and hex literals denote their positional value iff < 2^64, negatives rejected, dotted quads accepted iff four "
            "canonical octets <= 255, booleans, ip:port and ip/port iff port <= 65535, closed hex sections with odd digit count or a non-hex "
            "character rejected. Correspondence: boundary spellings through the real parser (canonical trees) and ports read back from the "
            "real pcap.", "7 C17", "Lean proof (numeral semantics) + boundary-spelling correspondence"),
    'C20': ("Theorems by decide +kernel over the table regenerated from /repo on every run: every constant equals the number its registry "
            "assigns to its name (TLS from the shipped IANA CSVs, others from Spec/Registry.lean with an explicit alias list), every function "
            "accepts its documented mandatory call. Correspondence: docs regenerated by the binary = Lean Docs model rendering = shipped docs/ "
            "byte for byte; every constant evaluated through the language; every function called.", "7 C20",
            "Lean proof (decide +kernel over regenerated tables) + translator + byte-exact documentation correspondence"),
    'C01': ("Theorems: the independent pcap reader recovers header and every record from header ++ records for all sizes < 2^32; write_packet "
            "restores the packet (headroom borrowing unobservable) for every size; for every program and library the output file of a "
            "successful run is header ++ the records of the expression statements' packets in statement/generation order; let/import "
            "write nothing; a bare reference to a stored packet writes it each time without executing anything. Correspondence: "
            "random programs, examples, frame sizes 14..65535; Spec.parsePcap on the real file.", "7 C01",
            "Lean proof (interpreter output invariant, reader/writer round trip) + byte-exact correspondence"),
    'C11': ("Theorems: argvec = declarative three-phase Spec.bind for every well-formed signature and every call (accept/reject, vector, "
            "tail; never panics); rejected iff one of six named reasons; 16x16 compatibility table = prose; every signature of the "
            "regenerated library table is well-formed (decide +kernel). Correspondence: all real signatures x call shapes through the "
            "real FuncDef::argvec.", "7 C11", "Lean proof (state machine = declarative convention) + exhaustive small-scope correspondence"),
    'C12': ("Theorems over arbitrary statement lists: sec/nsec split exact below 2^32 s, timestamps monotone, strictly increasing between "
            "packet-emitting statements, gap of a statement a function of its value only, a jump of d shifts exactly the later records by d "
            "(all four units). Correspondence + Spec.parsePcap times of real files incl. twin programs with an inserted jump.", "7 C12",
            "Lean proof (clock invariants, shift simulation) + twin-program differential runs"),
    'C19': ("Theorems: BufWriter/device accounting; for every program and every budget k < output length the run is a failure (Io), never "
            "success, never panic; success implies the complete file; device content always a prefix; inside a batch every I/O fault makes the "
            "exit status 1 whatever follows (C08Batch.io_fault_exit). Fault enumeration on the real binary: "
            "RLIMIT_FSIZE at every byte offset (small programs) / all buffer boundaries +-1 (large), /dev/full, missing directories, "
            "missing input and data files. OS write(2)/BufWriter behaviour is an assumption confirmed by the enumeration.", "7 C19",
            "Lean proof (lock-step simulation of budgeted vs unlimited writer) + fault enumeration on the real binary"),
    'C09': ("Theorems: the LR automaton never panics (stack invariant, fuel bound), parseAll = recursive-descent Spec.parse for EVERY token list "
            "(accept/reject, statements, error index), Spec.parse sound+complete for the inductive grammar, viable-prefix error position, "
            "line splitting irrelevant; Props/C09Eof: a literal still pending at end of input is fed before EOF and always rejected. "
            "Correspondence: exhaustive kind sequences, scale families (each recursive construct repeated up to 150/1000 times) + grammar-directed sentences and mutants through the real "
            "lexer+parser; Spec.parse run on the real tokens.", "7 C09", "Lean proof (LR/recursive-descent simulation) + correspondence"),
    'C10': ("Theorems: Lex.line = declarative Spec.lexLine (ordered rule list, longest match per rule, first rule wins) for every line and "
            "pending string; totality; exact byte columns; tiling; error at the first character no rule matches; a pending literal (empty "
            "included) is never dropped. Correspondence: all strings to length 3/4 over a 32-class alphabet + random lines + lines of up to "
            "70 KB and files of 65541 lines through the real Lexer::line.", "7 C10",
            "Lean proof (scanner = rule-list spec) + exhaustive small-scope correspondence"),
    'C13': ("Theorems (text-level half): blank/comment lines, trailing comments, edge whitespace are no-ops for the lexer; unused literal lets "
            "and source positions are unobservable in the output; batch = map. The environment half cannot be a theorem: differential runs "
            "under varied TZ/LANG/HOME/cwd/outdir/batch order, strace audit (no clock/pid/cwd reads), source scan (hash maps never iterated).",
            "7 C13", "Lean proof (lexer/interpreter no-op lemmas) + environment differential runs + syscall audit (partial: environment clause not a theorem)"),
    'C14': ("Theorems for every library table: rebinding rejected, use-before-bind/import rejected, re-import no-op, statements in order, "
            "arguments left-to-right exactly once (trace semantics), let-bound values frozen and re-emittable in any order, inlining of "
            "pure lets and renaming of positions leave the output unchanged; Props/C14Order: the first faulty operand in source order decides "
            "(slash operands, argument lists, calls); Props/C14Heap: for all 85 library functions a call touches only the object it is "
            "called on, its result depends only on that object, calls on different objects commute. Correspondence + metamorphic relations "
            "on the real binary (fault order, twin objects, stored emission, imports on the line of a use).",
            "7 C14", "Lean proof (interpreter simulation lemmas) + metamorphic differential runs"),
    'C02': ("Theorems for every builder (TCP flow ops, UDP flow/unicast/broadcast/DNS/VXLAN, ICMP, ipv4::datagram, fragments, GRE/ERSPAN) and "
            "all payloads/options with total length <= 65535: Spec.ipv4Ok (version/IHL, total length, checksum) and every requested field reads "
            "back; nesting by induction over tunnel layers. Correspondence + Spec oracle on real records at every depth.", "7 C02",
            "Lean proof (checksum arithmetic by omega, builder invariants, induction over layers) + correspondence"),
    'C03': ("Theorems: TCP checksum verifies for every flow op and payload parity; UDP checksum non-zero and verifying (0 -> 0xffff), UDP "
            "length exact for all UDP builders; ICMP echo checksum/type/code/id and the k-th echo carries seq k mod 2^16 over every history. "
            "Correspondence + Spec oracle incl. crafted sums that fold to zero.", "7 C03",
            "Lean proof (one's-complement arithmetic, history induction) + correspondence"),
    'C18': ("Theorems (no hypotheses): for every builder, framed = Spec.ethFrame(raw) with MACs 00:02+address octets from the packet's own "
            "IP header, broadcast destination all-ones; ipv4::datagram always framed. One clause fails by design (broadcast srcip:) and is a "
            "known finding with a proved counter-witness. Correspondence: every scenario compiled framed and raw by the real binary.", "7 C18",
            "Lean proof (builder equations) + framed/raw differential runs"),
    'C06': ("Theorems: one outer per inner in order, byte-identical payload, header fields per kind, ERSPAN II/GRE sequence counts packets "
            "from zero across calls, unwrap (wrap layers inner) = inner for every nesting list; Props/C06Any: for inner frames of ANY size "
            "(no fit hypothesis) the positional decoder recovers the inner frame, per kind, per call and through every nesting; Props/C14Heap: "
            "sessions share no state (per-session counters). "
            "Correspondence: all nestings to depth 2/3 + random to depth 5, inner frames up to 70000 bytes; real pcap peeled by the Spec "
            "decoders and compared with the un-encapsulated run.", "7 C06",
            "Lean proof (decoder round trips, history invariant, induction over layers) + correspondence"),
    'C07': ("Theorems: every fragment decodes to the requested slice/fields, MF iff bytes remain, tail/datagram, RFC 791 reassembly of any "
            "covering set in any permutation returns the payload. Correspondence: exhaustive (n,off,len) grid + random covering sets; "
            "Spec.decodeFrag/reassemble on the real fragments.", "7 C07",
            "Lean proof (slice algebra, permutation-invariant reassembly) + correspondence"),
    'C04': ("Theorems (induction over arbitrary op histories, all ISNs, wrap-around): counters track consumed sequence space, every "
            "emitted segment has the expected seq/ack/flags, reassembly of any permutation of the segments recovers the scripted "
            "streams, overrides are local. Correspondence: exhaustive short histories + random histories through the real binary; "
            "the Lean spec is also evaluated on the real segments.", "7 C04",
            "Lean proof (invariant + refinement to stream spec) + model/implementation correspondence"),
}
man = json.load(open(os.path.join(V, 'MANIFEST.json')))
checks = []
for p in props:
    pid = p['id']
    if pid in CLAIMS and os.path.exists(os.path.join(V, 'vlib', 'props', pid + '.py')):
        text, ref, tech = CLAIMS[pid]
        checks.append(dict(property_id=pid, quick_cmd='./check %s --tier quick' % pid, thorough_cmd='./check %s --tier thorough' % pid,
                           evidence_file='evidence/%s.json' % pid, replay_cmd_template='./check %s --replay {path}' % pid,
                           engine='lean-proof+correspondence',
                           level_claimed=dict(category='proof', text=text, design_ref='DESIGN.md section ' + ref),
                           level_note=NOTE, technique=tech))
man['checks'] = checks
man['not_applicable'] = [dict(property_id=p['id'], reason='check not built yet (in progress, see DESIGN.md section 12)')
                         for p in props if p['id'] not in [c['property_id'] for c in checks]]
man['engines'] = [dict(name='lean-proof+correspondence', path='check', serves_properties=[c['property_id'] for c in checks],
                       kind_free_text='Lean 4 theorems over a hand-written model (lean/Resynth), audited for axioms; model tied to /repo by differential runs (harness/, real binary) and a table translator (tools/gen_tables.py); executable Spec predicates as oracle on real output')]
fixes = subprocess.run(['git', '-C', '/repo', 'log', '--format=%h %s'], capture_output=True, text=True).stdout.splitlines()
man['hooks']['source_commits'] = [l.split(' ')[0] for l in fixes if l.split(' ', 1)[1].startswith('verif hooks')]
man['notes'] = 'see DESIGN.md; fix: commits in /repo are listed in known_findings.json'
json.dump(man, open(os.path.join(V, 'MANIFEST.json'), 'w'), indent=1)
print('claimed:', [c['property_id'] for c in checks])
