#!/usr/bin/env python3
"""Regenerates MANIFEST.json from the table below (claimed properties only; the rest go to not_applicable)."""
import json, os, subprocess
V = os.path.dirname(os.path.dirname(os.path.abspath(__file__)))
props = [json.loads(l) for l in open(os.path.join(V, 'properties.jsonl'))]
NOTE = ("Trusted: Lean 4.33 kernel + axioms {propext, Classical.choice, Quot.sound} (audited per theorem on every run); the "
        "hand-written Lean model is tied to /repo by the correspondence campaign of each run (real binary / in-process harness "
        "vs compiled model driver on generated inputs), tables by tools/gen_tables.py; Spec predicates are additionally run "
        "on the implementation's own output. A theorem speaks about the model; the implementation is covered where the campaign compared them.")
CLAIMS = {
    'C04': ("Theorems (induction over arbitrary op histories, all ISNs, wrap-around): counters track consumed sequence space, every "
            "emitted segment has the expected seq/ack/flags, reassembly of any permutation of the segments recovers the scripted "
            "streams, overrides are local. Correspondence: exhaustive short histories + random histories through the real binary; "
            "the Lean spec is also evaluated on the real segments.", "7 C04",
            "Lean proof (invariant + refinement to stream spec) + model/implementation correspondence"),
}
man = json.load(open(os.path.join(V, 'MANIFEST.json')))
checks = []
for p in props:
    pid = p['id']
    if pid in CLAIMS and os.path.exists(os.path.join(V, 'vlib', 'props', pid + '.py')):
        text, ref, tech = CLAIMS[pid]
        checks.append(dict(property_id=pid, quick_cmd='./check %s --tier quick' % pid, thorough_cmd='./check %s --tier thorough' % pid,
                           evidence_file='evidence/%s.json' % pid, replay_cmd_template='./check %s --replay {path}' % pid,
                           engine='lean-proof+correspondence',
                           level_claimed=dict(category='proof', text=text, design_ref='DESIGN.md section ' + ref),
                           level_note=NOTE, technique=tech))
man['checks'] = checks
man['not_applicable'] = [dict(property_id=p['id'], reason='check not built yet (in progress, see DESIGN.md section 12)')
                         for p in props if p['id'] not in [c['property_id'] for c in checks]]
man['engines'] = [dict(name='lean-proof+correspondence', path='check', serves_properties=[c['property_id'] for c in checks],
                       kind_free_text='Lean 4 theorems over a hand-written model (lean/Resynth), audited for axioms; model tied to /repo by differential runs (harness/, real binary) and a table translator (tools/gen_tables.py); executable Spec predicates as oracle on real output')]
fixes = subprocess.run(['git', '-C', '/repo', 'log', '--format=%h %s'], capture_output=True, text=True).stdout.splitlines()
man['hooks']['source_commits'] = [l.split(' ')[0] for l in fixes if l.split(' ', 1)[1].startswith('verif hooks')]
man['notes'] = 'see DESIGN.md; fix: commits in /repo are listed in known_findings.json'
json.dump(man, open(os.path.join(V, 'MANIFEST.json'), 'w'), indent=1)
print('claimed:', [c['property_id'] for c in checks])
