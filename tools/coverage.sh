#!/bin/bash
# Which lines of /repo do the campaigns (the correspondence + oracle runs of ./check) execute?
#
#   tools/coverage.sh [tier] [check ids...]      (default: quick, all twenty)
#
# Builds the harness and the CLI with `-C instrument-coverage` (nightly toolchain: it ships the
# matching llvm-profdata / llvm-cov) into a scratch directory under /tmp, runs the campaigns against those
# binaries, and writes coverage/summary.txt (per file) and coverage/uncovered.txt (every source line of
# src/, pkt/src, ezpkt/src that holds code and was never executed).  A line the campaigns never execute
# can be changed without the correspondence noticing: the list is the campaigns' blind-spot map and is
# used to widen generators.  This is a development aid, not a registered check; verdicts in coverage
# mode are ignored (the strace audit of C13 sees the profile files, for instance).
set -u
cd "$(dirname "$0")/.."
tier="${1:-quick}"; shift || true
checks="${*:-C01 C02 C03 C04 C05 C06 C07 C08 C09 C10 C11 C12 C13 C14 C15 C16 C17 C18 C19 C20}"
cov=/tmp/resynth_cov
export VERIF_COVERAGE="$cov"
tc=$(rustc +nightly --print sysroot)/lib/rustlib/x86_64-unknown-linux-gnu/bin
if [ "${COV_REUSE:-}" = "" ]; then
rm -rf "$cov"; mkdir -p "$cov/prof" coverage
for c in $checks; do
  ./check "$c" --tier "$tier" 2>&1 | grep -E "^(PASS|FAIL)" | cut -c1-160
done
fi
# profiles cut short by the fault injection of C19 (RLIMIT_FSIZE) or by a kill are skipped
"$tc/llvm-profdata" merge --failure-mode=all -sparse "$cov"/prof/*.profraw -o "$cov/all.profdata" 2>/dev/null || exit 2
objs="-object $cov/target-cli/debug/resynth"
"$tc/llvm-cov" report "$cov/target-h/debug/harness" $objs -instr-profile="$cov/all.profdata" \
   --ignore-filename-regex='(\.cargo|rustc|/verif/)' > coverage/summary.txt
"$tc/llvm-cov" export "$cov/target-h/debug/harness" $objs -instr-profile="$cov/all.profdata" -format=lcov \
   --ignore-filename-regex='(\.cargo|rustc|/verif/)' > "$cov/all.lcov"
python3 - "$cov/all.lcov" > coverage/uncovered.txt <<'EOF'
import sys, collections
cur = None; un = collections.OrderedDict()
for ln in open(sys.argv[1]):
    ln = ln.strip()
    if ln.startswith('SF:'): cur = ln[3:]; un.setdefault(cur, [])
    elif ln.startswith('DA:'):
        n, c = ln[3:].split(',')[:2]
        if int(c) == 0: un[cur].append(int(n))
for f, ls in un.items():
    if not ls: continue
    src = open(f, errors='replace').read().split('\n')
    # group into runs
    runs = []; s = p = None
    for n in ls:
        if s is None: s = p = n
        elif n == p + 1: p = n
        else: runs.append((s, p)); s = p = n
    runs.append((s, p))
    print('== %s (%d lines never executed)' % (f, len(ls)))
    for a, b in runs:
        print('  %d-%d: %s' % (a, b, src[a - 1].strip()[:110]))
EOF
tail -1 coverage/summary.txt
[ "${COV_KEEP:-}" = "" ] && rm -rf "$cov"
