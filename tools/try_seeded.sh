#!/bin/bash
# Apply a seeded change to /repo, run the given checks (default: the property it targets), undo it.
#   tools/try_seeded.sh <dir under seeded/> [check ids...]
set -u
cd "$(dirname "$0")/.."
name="$1"; d="seeded/$name"; shift
[ -f "$d/patch.diff" ] || { echo "no $d/patch.diff"; exit 2; }
prop=$(python3 -c "import json,sys; print(json.load(open('$d/meta.json'))['property'])")
checks="${*:-$prop}"
git -C /repo diff --quiet || { echo "/repo has uncommitted changes"; exit 2; }
git -C /repo apply "$PWD/$d/patch.diff" || { echo "patch does not apply"; exit 2; }
trap 'git -C /repo checkout -- . ; git -C /repo status --short | grep -v "^??" ' EXIT
for c in $checks; do
  out=$(./check "$c" --tier quick 2>&1)
  echo "$out" | grep -E "^(VIOLATION|KNOWN-FINDING|PASS|FAIL)" | cut -c1-220 | sed "s/^/[$name $c] /"
done
