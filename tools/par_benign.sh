#!/bin/bash
# False-alarm regression: every behaviour-preserving change under benign/<name>/patch.diff is applied to a SCRATCH
# worktree of /repo and ALL twenty quick checks are run against it with a scratch copy of /verif (VERIF_REPO).
# Expected: every check passes (KNOWN-FINDING lines allowed).  Development aid, like tools/par_seeded.sh.
#
#   tools/par_benign.sh ['*'] [jobs]
set -u
cd "$(dirname "$0")/.."
pat="${1:-*}"; jobs="${2:-5}"
base=/tmp/parbenign
rm -rf "$base"; mkdir -p "$base"
names=(); for d in benign/$pat/; do [ -f "$d/patch.diff" ] && names+=("$(basename "$d")"); done
[ ${#names[@]} -gt 0 ] || { echo "no benign change matches $pat"; exit 2; }
worker() {
  i=$1; slot=$base/s$i
  mkdir -p "$slot"
  git -C /repo worktree add -q --detach "$slot/repo" HEAD || return
  rsync -a --exclude .git --exclude replay --exclude evidence --exclude coverage /verif/ "$slot/verif/"
  sed -i "s#\"/repo#\"$slot/repo#g" "$slot/verif/harness/Cargo.toml"
  export VERIF_REPO="$slot/repo"
  n=0
  for name in "${names[@]}"; do
    n=$((n+1)); [ $(( (n - 1) % jobs )) -eq $((i - 1)) ] || continue
    if ! git -C "$slot/repo" apply "$PWD/benign/$name/patch.diff" 2>/dev/null; then echo "$name: patch does not apply"; continue; fi
    bad=""
    for c in C01 C02 C03 C04 C05 C06 C07 C08 C09 C10 C11 C12 C13 C14 C15 C16 C17 C18 C19 C20; do
      out=$(cd "$slot/verif" && ./check "$c" --tier quick 2>&1)
      if echo "$out" | grep -q "^VIOLATION"; then
        bad="$bad $c($(echo "$out" | grep -c '^VIOLATION')$(echo "$out" | grep -q no-failing-input-found && echo ':nfi'))"
        mkdir -p "$PWD/benign/$name/alarms"; echo "$out" | grep -E "^(VIOLATION|DISAGREEMENT|BROKEN|FAIL)" | cut -c1-600 > "$PWD/benign/$name/alarms/$c.txt"
        cp "$slot/verif/replay/$c-1.json" "$PWD/benign/$name/alarms/$c-1.json" 2>/dev/null
      elif ! echo "$out" | grep -q "^PASS"; then bad="$bad $c(??)"; fi
    done
    git -C "$slot/repo" checkout -q -- .
    git -C "$slot/repo" clean -fdq -- src pkt ezpkt 2>/dev/null
    echo "$name: ${bad:- quiet}"
  done
  git -C /repo worktree remove --force "$slot/repo"
}
for i in $(seq 1 "$jobs"); do worker "$i" & done
wait
git -C /repo worktree prune
rm -rf "$base"
