import Lean
/-!
Audit of a property module: lists every theorem declared in the given module together with
the axioms it depends on. Run: `lake env lean --run ../tools/Audit.lean Resynth.Props.C01`
Output lines: `THEOREM <name> AXIOMS <a,b,c>`
-/
open Lean

def main (args : List String) : IO UInt32 := do
  let some modName := args.head? | do IO.eprintln "usage: Audit <module>"; return 2
  let mod := modName.toName
  initSearchPath (← findSysroot)
  let env ← importModules #[{ module := mod }] {} (trustLevel := 1024)
  let some idx := env.getModuleIdx? mod | do IO.eprintln "module not found"; return 2
  let mut n := 0
  for (name, ci) in env.constants.toList do
    if env.getModuleIdxFor? name == some idx then
      match ci with
      | .thmInfo _ =>
        if name.isInternal then continue
        let (axs, _) ← (collectAxioms name : CoreM (Array Name)).toIO
          { fileName := "<audit>", fileMap := default } { env := env }
        let axs := axs.toList.map toString
        IO.println s!"THEOREM {name} AXIOMS {",".intercalate axs}"
        n := n + 1
      | _ => pure ()
  IO.println s!"COUNT {n}"
  return 0
