#!/bin/sh
# Build the framework from files on disk only (offline): harness, CLI, generated tables, Lean library + driver.
set -e
cd "$(dirname "$0")"
export CARGO_NET_OFFLINE=true
mkdir -p work evidence replay
[ -f harness/Cargo.lock ] || cp /repo/Cargo.lock harness/Cargo.lock 2>/dev/null || cp harness/Cargo.lock.seed harness/Cargo.lock
(cd harness && cargo build --offline 2>&1 | tail -1)
cargo build --offline --manifest-path /repo/Cargo.toml --target-dir target-cli 2>&1 | tail -1
python3 tools/gen_tables.py harness/target/debug/harness
python3 tools/mk_root.py
(cd lean && lake build Resynth resynth_model 2>&1 | tail -2)
