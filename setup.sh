#!/bin/sh
# Build the framework from files on disk only (offline).
set -e
cd "$(dirname "$0")"
(cd lean && lake build 2>&1 | tail -3)
